#!/bin/bash
# Per-property entry point: ./check.sh <ID> <quick|thorough>  |  ./check.sh --replay <file>
cd "$(dirname "$0")"
export GOFLAGS=-mod=mod GOPROXY=off GOTOOLCHAIN=local GOSUMDB=off PATH=/opt/veriftools/go1.26.8/bin:$PATH
if [ "$1" = "--replay" ]; then
  exec ./bin/govc replay "$2"
fi
id="$1"; tier="${2:-quick}"
[ -x bin/govc ] || ./setup.sh >/dev/null
# GOVC_REPO (optional): verify another copy of the repository (self-tests on scratch clones); default /repo
exec ./bin/govc check --property "$id" --tier "$tier" ${GOVC_REPO:+--repo "$GOVC_REPO"}
