#!/bin/bash
# Builds /verif/bin/govc offline with go1.26.8 + x/tools v0.50.0.
set -e
cd "$(dirname "$0")"
export GOFLAGS=-mod=mod GOPROXY=off GOTOOLCHAIN=local GOSUMDB=off PATH=/opt/veriftools/go1.26.8/bin:$PATH
mkdir -p bin evidence out
(cd govc && go build -o ../bin/govc .)
echo "setup ok"
