// pkgdir: pkg/container/lru
package lru

// Bounded stand-in for C45 (labelled bounded, never counted as proved).
//
// Contract, taken from the property statement: the cache is an abstract
// sequence of (key, value) pairs ordered by recency of use. Add of a present
// key updates the value and makes it most recent (nothing leaves); Add of an
// absent key inserts it as most recent and, when a non-zero capacity is
// exceeded, the least recently used entry leaves; Get of a present key returns
// its value and makes it most recent; Remove of a present key makes it leave;
// Len is the number of entries; the eviction callback is invoked exactly once,
// with the entry's key and current value, for every entry that leaves, at the
// moment it leaves; capacity 0 means unbounded.
//
// The oracle below is that abstract sequence; the real Cache is driven with
// every operation sequence up to the bound and compared after every step
// (Len, callback log, and finally the full content in recency order through
// non-mutating inspection of the real representation).

import (
	"fmt"
	"os"
	"testing"
)

type c45kv struct {
	k, v int
}

type c45model struct {
	capacity int
	seq      []c45kv // most recent first
	evicted  []c45kv
}

func (m *c45model) find(k int) int {
	for i, e := range m.seq {
		if e.k == k {
			return i
		}
	}
	return -1
}

func (m *c45model) touch(i int) {
	e := m.seq[i]
	copy(m.seq[1:i+1], m.seq[:i])
	m.seq[0] = e
}

func (m *c45model) add(k, v int) {
	if i := m.find(k); i >= 0 {
		m.seq[i].v = v
		m.touch(i)
		return
	}
	m.seq = append([]c45kv{{k, v}}, m.seq...)
	if m.capacity != 0 && len(m.seq) > m.capacity {
		last := m.seq[len(m.seq)-1]
		m.seq = m.seq[:len(m.seq)-1]
		m.evicted = append(m.evicted, last)
	}
}

func (m *c45model) get(k int) (int, bool) {
	if i := m.find(k); i >= 0 {
		v := m.seq[i].v
		m.touch(i)
		return v, true
	}
	return 0, false
}

func (m *c45model) remove(k int) {
	if i := m.find(k); i >= 0 {
		m.evicted = append(m.evicted, m.seq[i])
		m.seq = append(m.seq[:i:i], m.seq[i+1:]...)
	}
}

// c45op encodes one operation: kind 0 Add, 1 Get, 2 Remove, 3 Len.
type c45op struct {
	kind, k, v int
}

func (o c45op) String() string {
	switch o.kind {
	case 0:
		return fmt.Sprintf("Add(%d,%d)", o.k, o.v)
	case 1:
		return fmt.Sprintf("Get(%d)", o.k)
	case 2:
		return fmt.Sprintf("Remove(%d)", o.k)
	}
	return "Len()"
}

func c45run(capacity int, ops []c45op) (string, bool) {
	var log []c45kv
	c := New[int, int](capacity, func(k, v int) { log = append(log, c45kv{k, v}) })
	m := &c45model{capacity: capacity}
	for step, o := range ops {
		switch o.kind {
		case 0:
			c.Add(o.k, o.v)
			m.add(o.k, o.v)
		case 1:
			v, ok := c.Get(o.k)
			mv, mok := m.get(o.k)
			if ok != mok || (ok && v != mv) {
				return fmt.Sprintf("step %d %v returned (%d,%v), model (%d,%v)", step, o, v, ok, mv, mok), false
			}
		case 2:
			c.Remove(o.k)
			m.remove(o.k)
		}
		if c.Len() != len(m.seq) {
			return fmt.Sprintf("step %d %v: Len()=%d, model holds %d entries", step, o, c.Len(), len(m.seq)), false
		}
		if len(log) != len(m.evicted) {
			return fmt.Sprintf("step %d %v: %d eviction callbacks so far, model says %d entries have left", step, o, len(log), len(m.evicted)), false
		}
		for i := range log {
			if log[i] != m.evicted[i] {
				return fmt.Sprintf("step %d %v: eviction callback #%d was (%d,%d), model (%d,%d)", step, o, i, log[i].k, log[i].v, m.evicted[i].k, m.evicted[i].v), false
			}
		}
	}
	// final content in recency order, read without touching recency
	i := 0
	for e := c.entries.Front(); e != nil; e = e.Next() {
		kv := e.Value.(*entry[int, int])
		if i >= len(m.seq) || kv.key != m.seq[i].k || kv.value != m.seq[i].v {
			return fmt.Sprintf("final content differs from the model at recency position %d (model %v)", i, m.seq), false
		}
		if c.index[kv.key] != e {
			return fmt.Sprintf("index entry of key %d does not point at its list element", kv.key), false
		}
		i++
	}
	if i != len(m.seq) || len(c.index) != len(m.seq) {
		return fmt.Sprintf("final size differs: list %d, index %d, model %d", i, len(c.index), len(m.seq)), false
	}
	return "", true
}

func TestBoundedLRUModel(t *testing.T) {
	maxLen := 5
	if os.Getenv("VERIF_TIER") == "thorough" {
		maxLen = 7
	}
	var alphabet []c45op
	for k := 0; k < 3; k++ {
		for v := 0; v < 2; v++ {
			alphabet = append(alphabet, c45op{0, k, v})
		}
		alphabet = append(alphabet, c45op{1, k, 0}, c45op{2, k, 0})
	}
	// Len is checked after every step, so it is not a separate letter
	evaluations, nontrivial, failures, samples := 0, 0, 0, 0
	ops := make([]c45op, 0, maxLen)
	// iterative deepening: all sequences of exactly length L, shortest first,
	// so that a reported failing input is a shortest one
	var rec func(capacity, length int)
	rec = func(capacity, length int) {
		if len(ops) == length {
			evaluations++
			msg, ok := c45run(capacity, ops)
			// non-trivial: the sequence makes at least one entry leave the cache
			m := &c45model{capacity: capacity}
			for _, o := range ops {
				switch o.kind {
				case 0:
					m.add(o.k, o.v)
				case 1:
					m.get(o.k)
				case 2:
					m.remove(o.k)
				}
			}
			if len(m.evicted) > 0 {
				nontrivial++
				if samples < 4 && length == maxLen && evaluations%9973 == 0 {
					samples++
					fmt.Printf("BOUNDED-SAMPLE capacity=%d ops=%v evicted=%v final=%v\n", capacity, ops, m.evicted, m.seq)
				}
			}
			if !ok {
				failures++
				if failures <= 3 {
					fmt.Printf("BOUNDED-FAIL capacity=%d ops=%v: %s\n", capacity, ops, msg)
				}
			}
			return
		}
		for _, o := range alphabet {
			ops = append(ops, o)
			rec(capacity, length)
			ops = ops[:len(ops)-1]
		}
	}
	for length := 1; length <= maxLen && failures == 0; length++ {
		for capacity := 0; capacity <= 3; capacity++ {
			rec(capacity, length)
		}
	}
	fmt.Printf("BOUNDED-BOUND all operation sequences of length 1..%d over Add/Get/Remove with 3 keys and 2 values, capacities 0..3 (0 = unbounded)\n", maxLen)
	fmt.Printf("BOUNDED-RULE every sequence is run on the real Cache and on the abstract recency sequence; Len, the eviction-callback log (order, key, value, exactly once) are compared after every step and the full content in recency order at the end; a case is non-trivial when at least one entry leaves the cache; all sequences are distinct by construction\n")
	fmt.Printf("BOUNDED-RESULT evaluations=%d distinct_nontrivial=%d exhaustive=true\n", evaluations, nontrivial)
	if failures > 0 {
		t.Fail()
	}
}
