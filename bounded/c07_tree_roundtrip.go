// pkgdir: pkg/synchronization/core
package core

// Bounded stand-in for the part of C07 the one-level contracts do not reach
// (labelled bounded, never counted as proved): whole-tree statements.
//
// Contract, taken from the property statement, over all VALID trees (valid:
// Entry.EnsureValid(false), i.e. unsynchronizable content allowed) of a
// bounded shape:
//   R  Apply(a, Diff(a, b)) succeeds and yields a tree equal to b; a and b
//      are left as they were;
//   S  Diff(a, a) is empty;
//   C  every kind of copy equals the original as far as it reaches (slim: the
//      node only), a deep copy equals it entirely, and a deep copy is
//      unaffected by arbitrary later changes to every node and map of the
//      original;
//   F  synchronizable() removes exactly the untracked, problematic and
//      phantom sub-trees;
//   N  Count() is the number of entries of the synchronizable part.
// The oracle is a separate value model of trees ("shapes"): real entries are
// built from a shape, and results are compared against shapes computed by the
// reference functions below - none of Equal, Copy, synchronizable or Count is
// used by the oracle.

import (
	"fmt"
	"math/rand"
	"os"
	"sort"
	"strconv"
	"strings"
	"testing"
)

type c07shape struct {
	kind    EntryKind
	exec    bool
	digest  string
	target  string
	problem string
	kids    map[string]*c07shape
}

func (s *c07shape) String() string {
	if s == nil {
		return "nil"
	}
	var b strings.Builder
	switch s.kind {
	case EntryKind_Directory:
		b.WriteString("D")
	case EntryKind_PhantomDirectory:
		b.WriteString("P")
	case EntryKind_File:
		b.WriteString("f" + s.digest)
		if s.exec {
			b.WriteString("x")
		}
	case EntryKind_SymbolicLink:
		b.WriteString("l>" + s.target)
	case EntryKind_Untracked:
		b.WriteString("u")
	case EntryKind_Problematic:
		b.WriteString("p!" + s.problem)
	}
	if s.kids != nil {
		names := make([]string, 0, len(s.kids))
		for n := range s.kids {
			names = append(names, n)
		}
		sort.Strings(names)
		b.WriteString("{")
		for i, n := range names {
			if i > 0 {
				b.WriteString(" ")
			}
			b.WriteString(n + ":" + s.kids[n].String())
		}
		b.WriteString("}")
	}
	return b.String()
}

// c07build allocates a new entry tree for a shape (nothing is shared between
// two builds of the same shape except nothing at all: digests are new slices).
func c07build(s *c07shape) *Entry {
	if s == nil {
		return nil
	}
	e := &Entry{Kind: s.kind, Executable: s.exec, Target: s.target, Problem: s.problem}
	if s.digest != "" {
		e.Digest = []byte(s.digest)
	}
	if len(s.kids) > 0 {
		e.Contents = make(map[string]*Entry, len(s.kids))
		for n, k := range s.kids {
			e.Contents[n] = c07build(k)
		}
	}
	return e
}

// c07matches: the entry tree is exactly the shape (reference deep equality).
func c07matches(e *Entry, s *c07shape) bool {
	if e == nil || s == nil {
		return e == nil && s == nil
	}
	if e.Kind != s.kind || e.Executable != s.exec || string(e.Digest) != s.digest || e.Target != s.target || e.Problem != s.problem {
		return false
	}
	if len(e.Contents) != len(s.kids) {
		return false
	}
	for n, k := range s.kids {
		c, ok := e.Contents[n]
		if !ok || !c07matches(c, k) {
			return false
		}
	}
	return true
}

func c07sameShape(a, b *c07shape) bool {
	return a.String() == b.String()
}

// reference filter: drop untracked, problematic and phantom sub-trees
func c07refSync(s *c07shape) *c07shape {
	if s == nil {
		return nil
	}
	switch s.kind {
	case EntryKind_Untracked, EntryKind_Problematic, EntryKind_PhantomDirectory:
		return nil
	}
	r := &c07shape{kind: s.kind, exec: s.exec, digest: s.digest, target: s.target}
	for n, k := range s.kids {
		if f := c07refSync(k); f != nil {
			if r.kids == nil {
				r.kids = map[string]*c07shape{}
			}
			r.kids[n] = f
		}
	}
	return r
}

func c07size(s *c07shape) uint64 {
	if s == nil {
		return 0
	}
	n := uint64(1)
	for _, k := range s.kids {
		n += c07size(k)
	}
	return n
}

func c07slim(s *c07shape) *c07shape {
	if s == nil {
		return nil
	}
	return &c07shape{kind: s.kind, exec: s.exec, digest: s.digest, target: s.target, problem: s.problem}
}

// c07vandalise changes every node and map reachable from e in place.
func c07vandalise(e *Entry) {
	if e == nil {
		return
	}
	for _, c := range e.Contents {
		c07vandalise(c)
	}
	e.Kind = EntryKind_Untracked
	e.Executable = !e.Executable
	e.Digest = []byte("vandal")
	e.Target = "vandal"
	e.Problem = "vandal"
	for n := range e.Contents {
		delete(e.Contents, n)
	}
	if e.Contents != nil {
		e.Contents["vandal"] = &Entry{Kind: EntryKind_Untracked}
	}
}

func c07leaves(full bool) []*c07shape {
	ls := []*c07shape{
		{kind: EntryKind_File, digest: "1"},
		{kind: EntryKind_File, digest: "1", exec: true},
		{kind: EntryKind_SymbolicLink, target: "t"},
		{kind: EntryKind_Untracked},
	}
	if full {
		ls = append(ls, &c07shape{kind: EntryKind_File, digest: "2"}, &c07shape{kind: EntryKind_Problematic, problem: "q"})
	}
	return ls
}

// c07contents enumerates all content maps over names with values from opts
// (absent allowed).
func c07contents(names []string, opts []*c07shape) []map[string]*c07shape {
	out := []map[string]*c07shape{nil}
	for _, n := range names {
		var next []map[string]*c07shape
		for _, m := range out {
			next = append(next, m)
			for _, o := range opts {
				mm := map[string]*c07shape{}
				for k, v := range m {
					mm[k] = v
				}
				mm[n] = o
				next = append(next, mm)
			}
		}
		out = next
	}
	return out
}

// c07trees: all trees of depth <= 2 (root, children, grandchildren) with the
// given names per level; directory kinds are Directory and PhantomDirectory.
func c07trees(names1, names2 []string, full bool) []*c07shape {
	leaves := c07leaves(full)
	var level2 []*c07shape // nodes at child level: leaves or directories of leaves
	level2 = append(level2, leaves...)
	for _, m := range c07contents(names2, leaves) {
		level2 = append(level2, &c07shape{kind: EntryKind_Directory, kids: m}, &c07shape{kind: EntryKind_PhantomDirectory, kids: m})
	}
	trees := []*c07shape{nil}
	trees = append(trees, leaves...)
	for _, m := range c07contents(names1, level2) {
		trees = append(trees, &c07shape{kind: EntryKind_Directory, kids: m}, &c07shape{kind: EntryKind_PhantomDirectory, kids: m})
	}
	return trees
}

func c07random(r *rand.Rand, depth int) *c07shape {
	leaves := c07leaves(true)
	if depth == 0 || r.Intn(3) == 0 {
		return leaves[r.Intn(len(leaves))]
	}
	s := &c07shape{kind: EntryKind_Directory}
	if r.Intn(4) == 0 {
		s.kind = EntryKind_PhantomDirectory
	}
	for _, n := range []string{"a", "b", "c"} {
		if r.Intn(3) != 0 {
			if s.kids == nil {
				s.kids = map[string]*c07shape{}
			}
			s.kids[n] = c07random(r, depth-1)
		}
	}
	return s
}

type c07run struct {
	evaluations, nontrivial, failures, samples int
}

func (c *c07run) fail(format string, args ...interface{}) {
	c.failures++
	if c.failures <= 20 {
		fmt.Printf("BOUNDED-FAIL "+format+"\n", args...)
	}
}

// single-tree clauses S, C, F, N
func (c *c07run) checkTree(s *c07shape) {
	c.evaluations++
	t := c07build(s)
	if err := t.EnsureValid(false); err != nil {
		c.fail("generator produced an invalid tree %v: %v", s, err)
		return
	}
	if d := Diff(t, t); len(d) != 0 {
		c.fail("S: Diff(t, t) has %d changes for t=%v", len(d), s)
	}
	if d := Diff(t, c07build(s)); len(d) != 0 {
		c.fail("S: Diff(t, t') has %d changes for two builds of t=%v", len(d), s)
	}
	// F, N
	f := t.synchronizable()
	want := c07refSync(s)
	if !c07matches(f, want) {
		c.fail("F: synchronizable(%v) is not %v", s, want)
	}
	if !c07matches(t, s) {
		c.fail("F: synchronizable changed its argument %v", s)
	}
	if n := t.Count(); n != c07size(want) {
		c.fail("N: Count(%v) = %d, synchronizable entries = %d", s, n, c07size(want))
	}
	if want != nil && !c07sameShape(want, s) {
		c.nontrivial++
	}
	// C
	for _, b := range []EntryCopyBehavior{EntryCopyBehaviorDeep, EntryCopyBehaviorDeepPreservingLeaves, EntryCopyBehaviorShallow} {
		if cp := t.Copy(b); !c07matches(cp, s) || (t != nil && cp == t) {
			c.fail("C: copy (behaviour %d) of %v differs from it", b, s)
		}
	}
	if cp := t.Copy(EntryCopyBehaviorSlim); !c07matches(cp, c07slim(s)) {
		c.fail("C: slim copy of %v is not its node without contents", s)
	}
	deep := t.Copy(EntryCopyBehaviorDeep)
	if !deep.Equal(t, true) || !t.Equal(deep, true) {
		c.fail("C: deep copy of %v does not compare Equal to it", s)
	}
	c07vandalise(t)
	if !c07matches(deep, s) {
		c.fail("C: deep copy of %v changed when the original was rewritten", s)
	}
}

// pair clause R
func (c *c07run) checkPair(sa, sb *c07shape) {
	c.evaluations++
	a, b := c07build(sa), c07build(sb)
	changes := Diff(a, b)
	r, err := Apply(a, changes)
	if err != nil {
		c.fail("R: Apply(a, Diff(a, b)) failed (%v) for a=%v b=%v", err, sa, sb)
		return
	}
	if !c07matches(r, sb) {
		c.fail("R: Apply(a, Diff(a, b)) is not b for a=%v b=%v (%d changes)", sa, sb, len(changes))
	}
	if !c07matches(a, sa) || !c07matches(b, sb) {
		c.fail("R: Diff/Apply changed an argument for a=%v b=%v", sa, sb)
	}
	same := c07sameShape(sa, sb)
	if same != (len(changes) == 0) {
		c.fail("S: Diff(a, b) has %d changes although a %s b, a=%v b=%v", len(changes), map[bool]string{true: "equals", false: "differs from"}[same], sa, sb)
	}
	nested := false
	for _, ch := range changes {
		if ch.Path != "" {
			nested = true
		}
	}
	if nested {
		c.nontrivial++
		if c.samples < 3 && len(changes) > 1 {
			c.samples++
			var ps []string
			for _, ch := range changes {
				ps = append(ps, strconv.Quote(ch.Path))
			}
			fmt.Printf("BOUNDED-SAMPLE a=%v b=%v changes at %s\n", sa, sb, strings.Join(ps, ","))
		}
	}
}

func TestBoundedTreeRoundTrip(t *testing.T) {
	thorough := os.Getenv("VERIF_TIER") == "thorough"
	seed, _ := strconv.ParseInt(os.Getenv("VERIF_SEED"), 10, 64)
	names1, names2, full := []string{"a", "b"}, []string{"a"}, false
	randomPairs := 20000
	singles := 0
	run := &c07run{}
	if thorough {
		// all six leaf forms in the pair set; single-tree clauses also over
		// the larger set with two grandchild names
		full = true
		randomPairs = 400000
		for _, s := range c07trees(names1, []string{"a", "b"}, true) {
			run.checkTree(s)
			singles++
		}
	}
	trees := c07trees(names1, names2, full)
	for _, s := range trees {
		run.checkTree(s)
	}
	for _, sa := range trees {
		for _, sb := range trees {
			run.checkPair(sa, sb)
		}
	}
	exhaustivePairs := len(trees) * len(trees)
	// random larger trees (depth <= 4, up to 3 names, all six leaf forms)
	r := rand.New(rand.NewSource(seed))
	for i := 0; i < randomPairs; i++ {
		sa, sb := c07random(r, 4), c07random(r, 4)
		if i%3 == 0 {
			sb = sa
		}
		run.checkPair(sa, sb)
		if i%50 == 0 {
			run.checkTree(sa)
		}
	}
	if singles > 0 {
		fmt.Printf("BOUNDED-BOUND single-tree clauses additionally over all %d trees with grandchildren named [a b] and all six leaf forms;\n", singles)
	}
	fmt.Printf("BOUNDED-BOUND all %d valid trees of depth <= 2 (root, children named %v, grandchildren named %v; node forms: directory, phantom directory, file, executable file, symbolic link, untracked%s; nil root included) singly and all %d ordered pairs of them; plus %d seeded random pairs of trees of depth <= 4 over names a,b,c with all six leaf forms (seed %d)\n",
		len(trees), names1, names2, map[bool]string{true: ", second digest, problematic", false: ""}[full], exhaustivePairs, randomPairs, seed)
	fmt.Printf("BOUNDED-RULE real entries are built from value shapes; Diff, Apply, Copy, synchronizable, Count, Equal are run on them and compared with reference functions on shapes (deep equality, filter, size) that use none of these; a pair is non-trivial when its diff contains a change below the root, a single tree when its synchronizable part differs from it; the random part is not exhaustive\n")
	fmt.Printf("BOUNDED-RESULT evaluations=%d distinct_nontrivial=%d exhaustive=%v\n", run.evaluations, run.nontrivial, false)
	if run.failures > 0 {
		t.Fatalf("%d failures", run.failures)
	}
}
