// pkgdir: pkg/url
package url

// Bounded stand-in for the round-trip half of C38 (labelled bounded, never
// counted as proved; the "every parsed URL is valid" half is also proved by
// contracts for the SSH and Docker parsers, see props/C38.prop).
//
// Contract, taken from the property statement: for every raw string s, kind k
// and position first, if Parse(s, k, first) succeeds with result u then
//   (valid)     u.EnsureValid() == nil, and
//   (roundtrip) Parse(u.Format(""), k, first) succeeds and yields the same URL
//               (kind, protocol, user, host, port, path, environment and
//               parameters all equal), and formatting that again gives the
//               same text.
// The oracle below is exactly this; the input space is every string of a
// grammar over users, hosts, ports, paths, forwarding endpoints and Docker
// components (see the BOUNDED-BOUND line), for both URL kinds, both positions
// and several Docker environments.

import (
	"fmt"
	"os"
	"sort"
	"strings"
	"testing"
)

type c38env map[string]string

func c38mapsEqual(a, b map[string]string) bool {
	if len(a) != len(b) {
		return false
	}
	for k, v := range a {
		if w, ok := b[k]; !ok || w != v {
			return false
		}
	}
	return true
}

func c38show(u *URL) string {
	var env []string
	for k, v := range u.Environment {
		env = append(env, k+"="+v)
	}
	sort.Strings(env)
	return fmt.Sprintf("{kind=%v protocol=%v user=%q host=%q port=%d path=%q env=%v params=%d}", u.Kind, u.Protocol, u.User, u.Host, u.Port, u.Path, env, len(u.Parameters))
}

// c38check evaluates the contract on one input. It returns whether the input
// parsed at all and, if the contract is violated, a description.
func c38check(raw string, kind Kind, first bool) (parsed bool, failure string) {
	u, err := Parse(raw, kind, first)
	if err != nil {
		return false, ""
	}
	if u == nil {
		return true, "Parse returned neither a URL nor an error"
	}
	if verr := u.EnsureValid(); verr != nil {
		return true, fmt.Sprintf("parsed to %s which validation rejects: %v", c38show(u), verr)
	}
	text := u.Format("")
	u2, err2 := Parse(text, kind, first)
	if err2 != nil {
		return true, fmt.Sprintf("parsed to %s, formatted as %q, which does not parse: %v", c38show(u), text, err2)
	}
	if u2.Kind != u.Kind || u2.Protocol != u.Protocol || u2.User != u.User || u2.Host != u.Host || u2.Port != u.Port || u2.Path != u.Path ||
		!c38mapsEqual(u2.Environment, u.Environment) || !c38mapsEqual(u2.Parameters, u.Parameters) || !u.Equal(u2) {
		return true, fmt.Sprintf("parsed to %s, formatted as %q, which parses to a different URL %s", c38show(u), text, c38show(u2))
	}
	if text2 := u2.Format(""); text2 != text {
		return true, fmt.Sprintf("formatted as %q, reparsed and formatted as %q", text, text2)
	}
	return true, ""
}

func TestBoundedURLRoundTrip(t *testing.T) {
	thorough := os.Getenv("VERIF_TIER") == "thorough"

	users := []string{"", "u", "user.name", "-u"}
	hosts := []string{"h", "h.example.org", "[::1]", "10.0.0.1", "-h"}
	ports := []string{"", "0", "22", "65535", "65536"}
	paths := []string{"p", "/p", "~/p", "~user/p", "22:p", `C:\p`, "p:q", "", ":p", "0:p"}
	endpoints := []string{"tcp:localhost:8080", "tcp::8080", "tcp4:10.0.0.1:80", "tcp6:[::1]:80", "unix:/run/s.sock", "unix:s.sock", "unix:~/s.sock", `npipe:\\.\pipe\n`, "udp:localhost:53", "tcp:", ""}
	containers := []string{"c", "c.name_1", "-c"}
	dockerPaths := []string{"/p", "/~/p", "/~user/p", `/C:\p`, "/C:/p", "/", "", "p"}
	if thorough {
		// option-like and boundary components, longer digit prefixes
		users = append(users, "u@v", "root", "u-v")
		hosts = append(hosts, "h-1", "22", "::1")
		ports = append(ports, "00022", "4294967296", "-1", "2x")
		paths = append(paths, "065536:p", "/22:p", "p/22:q", "~", "C:/p", "c:p", "é/p", "p q", "-p")
		containers = append(containers, "c@d", "0", "c-d")
		dockerPaths = append(dockerPaths, "//p", "/~", "/c:/p", `/1:\p`, "/p:q")
	}

	type input struct {
		raw   string
		kind  Kind
		first bool
		env   int
	}
	envs := []c38env{
		{},
		{"DOCKER_HOST": "tcp://docker.example.org:2375"},
		{"DOCKER_HOST": "unix:///var/run/docker.sock", "MUTAGEN_ALPHA_DOCKER_HOST": "tcp://alpha:2375", "MUTAGEN_SOURCE_DOCKER_HOST": "tcp://source:2375", "DOCKER_TLS_VERIFY": "", "DOCKER_CONTEXT": "ctx"},
	}

	seen := map[string]bool{}
	var inputs []input
	add := func(raw string, kind Kind, allEnvs bool) {
		key := fmt.Sprintf("%d|%s", kind, raw)
		if seen[key] {
			return
		}
		seen[key] = true
		n := 1
		if allEnvs {
			n = len(envs)
		}
		for e := 0; e < n; e++ {
			for _, first := range []bool{true, false} {
				if !allEnvs && !first {
					// position only matters for Docker environment lookup
					continue
				}
				inputs = append(inputs, input{raw, kind, first, e})
			}
		}
	}

	// SCP-style SSH and local synchronization URLs: [user@]host:[port:]path,
	// and the bare paths (local URLs).
	for _, p := range paths {
		add(p, Kind_Synchronization, false)
		for _, u := range users {
			for _, h := range hosts {
				for _, port := range ports {
					raw := h + ":"
					if u != "" {
						raw = u + "@" + raw
					}
					if port != "" {
						raw += port + ":"
					}
					add(raw+p, Kind_Synchronization, false)
				}
			}
		}
	}
	// forwarding URLs: bare endpoints (local) and [user@]host:[port:]endpoint
	for _, ep := range endpoints {
		add(ep, Kind_Forwarding, false)
		for _, u := range users {
			for _, h := range hosts {
				for _, port := range ports {
					raw := h + ":"
					if u != "" {
						raw = u + "@" + raw
					}
					if port != "" {
						raw += port + ":"
					}
					add(raw+ep, Kind_Forwarding, false)
				}
			}
		}
	}
	// Docker URLs of both kinds, with and without user, in every environment
	for _, scheme := range []string{"docker://", "DOCKER://"} {
		for _, u := range users {
			for _, c := range containers {
				prefix := scheme
				if u != "" {
					prefix += u + "@"
				}
				for _, p := range dockerPaths {
					add(prefix+c+p, Kind_Synchronization, true)
				}
				for _, ep := range endpoints {
					add(prefix+c+":"+ep, Kind_Forwarding, true)
				}
			}
		}
	}

	// enumerate by increasing length so that reported failing inputs are the
	// shortest ones
	sort.SliceStable(inputs, func(i, j int) bool { return len(inputs[i].raw) < len(inputs[j].raw) })

	savedLookup := lookupEnv
	defer func() { lookupEnv = savedLookup }()

	evaluations, parsedOK, failures, samples := 0, 0, 0, 0
	byProtocol := map[string]int{}
	for _, in := range inputs {
		env := envs[in.env]
		lookupEnv = func(name string) (string, bool) {
			v, ok := env[name]
			return v, ok
		}
		evaluations++
		parsed, failure := c38check(in.raw, in.kind, in.first)
		if parsed {
			parsedOK++
			if u, err := Parse(in.raw, in.kind, in.first); err == nil {
				byProtocol[fmt.Sprintf("%v/%v", u.Protocol, in.kind)]++
				if failure == "" && samples < 6 && parsedOK%97 == 1 {
					samples++
					fmt.Printf("BOUNDED-SAMPLE %q kind=%v first=%v env=%d -> %s -> %q\n", in.raw, in.kind, in.first, in.env, c38show(u), u.Format(""))
				}
			}
		}
		if failure != "" {
			failures++
			if failures <= 8 {
				fmt.Printf("BOUNDED-FAIL raw=%q kind=%v first=%v env=%d: %s\n", in.raw, in.kind, in.first, in.env, failure)
			}
		}
	}
	var prot []string
	for k, v := range byProtocol {
		prot = append(prot, fmt.Sprintf("%s=%d", k, v))
	}
	sort.Strings(prot)
	fmt.Printf("BOUNDED-BOUND every string [user@]host:[port:]path and every bare path for synchronization, every bare endpoint and [user@]host:[port:]endpoint for forwarding, docker://[user@]container(path | :endpoint) in both kinds, both positions and %d Docker environments; users %q hosts %q ports %q paths %q endpoints %q containers %q docker paths %q; Format(\"\") only (environment and parameter lines of Format with a prefix are for display and not reparsable; Parse never sets parameters)\n",
		len(envs), users, hosts, ports, paths, endpoints, containers, dockerPaths)
	fmt.Printf("BOUNDED-RULE each distinct (string, kind, position, environment) is parsed by the real Parse; inputs that Parse rejects are counted as evaluated but trivial; for every accepted input the contract is evaluated: EnsureValid accepts the result, Format(\"\") parses again (same kind and position) to a URL equal in every field, and formats to the same text. Accepted inputs by protocol/kind: %s\n", strings.Join(prot, " "))
	fmt.Printf("BOUNDED-RESULT evaluations=%d distinct_nontrivial=%d exhaustive=true\n", evaluations, parsedOK)
	if failures > 0 {
		t.Fail()
	}
}
