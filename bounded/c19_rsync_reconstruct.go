// pkgdir: pkg/synchronization/rsync
package rsync

// Bounded stand-in for the reconstruction clauses of C19 (labelled bounded,
// never counted as proved; the well-formedness / bounds / size-limit / memory
// safety clauses of C19 are proved by contract, see props/C19.prop).
//
// Contract, taken from the property statement: for any base and target data,
// block size and maximum data-operation size, applying the delta computed
// against the base's signature to the base reproduces the target byte for
// byte; every operation is well formed and within bounds; literal operations
// never exceed the size limit; an unchanged target is sent without literal
// data.
//
// The oracle below is that statement, evaluated on the real engine through
// BytesSignature / DeltifyBytes / PatchBytes: exhaustively for all base and
// target strings over {a,b} up to the bound with every block size 1..len and
// maximum data operation sizes {1,2,3,default}, plus random large inputs with
// random edits (seeded by VERIF_SEED).

import (
	"bytes"
	"fmt"
	"math/rand"
	"os"
	"strconv"
	"testing"
)

// c19check runs one case and returns a description of the first clause of the
// statement it violates ("" if none), whether the delta contains a block
// operation and whether it contains literal data.
func c19check(e *Engine, base, target []byte, blockSize, maxDataOpSize uint64) (msg string, hasBlock, hasData bool) {
	defer func() {
		if r := recover(); r != nil {
			msg = fmt.Sprintf("panic: %v", r)
		}
	}()
	sig := e.BytesSignature(base, blockSize)
	if err := sig.EnsureValid(); err != nil {
		return fmt.Sprintf("signature invalid: %v", err), false, false
	}
	delta := e.DeltifyBytes(target, sig, maxDataOpSize)
	limit := maxDataOpSize
	if limit == 0 {
		limit = DefaultMaximumDataOperationSize
	}
	for i, o := range delta {
		if err := o.EnsureValid(); err != nil {
			return fmt.Sprintf("operation %d malformed: %v", i, err), hasBlock, hasData
		}
		if len(o.Data) > 0 {
			hasData = true
			if uint64(len(o.Data)) > limit {
				return fmt.Sprintf("operation %d carries %d literal bytes, limit %d", i, len(o.Data), limit), hasBlock, hasData
			}
		} else {
			hasBlock = true
			if o.Start+o.Count > uint64(len(sig.Hashes)) || o.Start+o.Count < o.Start {
				return fmt.Sprintf("operation %d names blocks %d..%d of %d", i, o.Start, o.Start+o.Count, len(sig.Hashes)), hasBlock, hasData
			}
		}
	}
	patched, err := e.PatchBytes(base, sig, delta)
	if err != nil {
		return fmt.Sprintf("patch failed: %v", err), hasBlock, hasData
	}
	if !bytes.Equal(patched, target) {
		return fmt.Sprintf("reconstruction differs: got %q", patched), hasBlock, hasData
	}
	if bytes.Equal(base, target) && hasData {
		return "unchanged target sent with literal data", hasBlock, hasData
	}
	return "", hasBlock, hasData
}

// c19strings returns all strings over {a,b} of exactly length n.
func c19strings(n int) [][]byte {
	out := make([][]byte, 0, 1<<uint(n))
	for v := 0; v < 1<<uint(n); v++ {
		s := make([]byte, n)
		for i := 0; i < n; i++ {
			if v>>uint(i)&1 == 1 {
				s[i] = 'b'
			} else {
				s[i] = 'a'
			}
		}
		out = append(out, s)
	}
	return out
}

func TestBoundedRsyncReconstruction(t *testing.T) {
	maxLen := 7
	randomCases := 300
	if os.Getenv("VERIF_TIER") == "thorough" {
		maxLen = 9
		randomCases = 3000
	}
	seed, _ := strconv.Atoi(os.Getenv("VERIF_SEED"))
	e := NewEngine()
	byLen := make([][][]byte, maxLen+1)
	for n := 0; n <= maxLen; n++ {
		byLen[n] = c19strings(n)
	}
	maxOps := []uint64{1, 2, 3, 0}
	evaluations, nontrivial, failures, samples := 0, 0, 0, 0
	run := func(base, target []byte) {
		top := len(base)
		if len(target) > top {
			top = len(target)
		}
		if top == 0 {
			top = 1
		}
		for bs := 1; bs <= top; bs++ {
			for _, m := range maxOps {
				evaluations++
				msg, hasBlock, hasData := c19check(e, base, target, uint64(bs), m)
				// non-trivial: the target differs from the base and the delta
				// mixes block references with literal data
				if hasBlock && hasData {
					nontrivial++
					if samples < 4 && evaluations%100003 == 0 {
						samples++
						fmt.Printf("BOUNDED-SAMPLE base=%q target=%q blockSize=%d maxDataOpSize=%d: reconstructed, operations well formed\n", base, target, bs, m)
					}
				}
				if msg != "" {
					failures++
					if failures <= 3 {
						fmt.Printf("BOUNDED-FAIL base=%q target=%q blockSize=%d maxDataOpSize=%d: %s\n", base, target, bs, m, msg)
					}
				}
			}
		}
	}
	// shortest first: all pairs whose longer member has exactly length n
	for n := 0; n <= maxLen && failures == 0; n++ {
		for lb := 0; lb <= n; lb++ {
			for lt := 0; lt <= n; lt++ {
				if lb != n && lt != n {
					continue
				}
				for _, base := range byLen[lb] {
					for _, target := range byLen[lt] {
						run(base, target)
					}
				}
			}
		}
	}
	// random large inputs with random edits (not part of the exhaustive count)
	rng := rand.New(rand.NewSource(int64(seed) + 19))
	randomRun, randomFail := 0, 0
	for c := 0; c < randomCases && failures == 0; c++ {
		size := rng.Intn(40000)
		base := make([]byte, size)
		rng.Read(base)
		target := append([]byte(nil), base...)
		for k := rng.Intn(6); k > 0 && len(target) > 0; k-- {
			pos := rng.Intn(len(target))
			switch rng.Intn(3) {
			case 0: // overwrite a run
				for j := pos; j < len(target) && j < pos+rng.Intn(300); j++ {
					target[j] = byte(rng.Intn(256))
				}
			case 1: // delete a run
				end := pos + rng.Intn(3000)
				if end > len(target) {
					end = len(target)
				}
				target = append(target[:pos:pos], target[end:]...)
			case 2: // insert a run
				ins := make([]byte, rng.Intn(3000))
				rng.Read(ins)
				target = append(target[:pos:pos], append(ins, target[pos:]...)...)
			}
		}
		var bs uint64
		switch rng.Intn(3) {
		case 0:
			bs = 0 // engine's choice
		case 1:
			bs = uint64(1 + rng.Intn(64))
		case 2:
			bs = uint64(1 + rng.Intn(5000))
		}
		m := []uint64{0, 1, 7, 100, 4096}[rng.Intn(5)]
		if m == 1 && len(target) > 5000 {
			m = 7
		}
		randomRun++
		if msg, _, _ := c19check(e, base, target, bs, m); msg != "" {
			randomFail++
			failures++
			if len(msg) > 200 {
				msg = msg[:200] + "..."
			}
			fmt.Printf("BOUNDED-FAIL random case %d (seed %d): base %d bytes, target %d bytes, blockSize=%d maxDataOpSize=%d: %s\n", c, seed, len(base), len(target), bs, m, msg)
		}
	}
	fmt.Printf("BOUNDED-SAMPLE %d random large cases (bases up to 40000 bytes with up to 5 random overwrites/deletions/insertions, block sizes engine-chosen or 1..5000, data operation sizes {default,1,7,100,4096}, seed %d): %d failed\n", randomRun, seed, randomFail)
	fmt.Printf("BOUNDED-BOUND all base and target strings over {a,b} of length 0..%d, every block size 1..max(len(base),len(target),1), maximum data operation sizes {1,2,3,default}; additionally %d random large inputs with random edits (not counted in evaluations)\n", maxLen, randomRun)
	fmt.Printf("BOUNDED-RULE every case runs BytesSignature, DeltifyBytes and PatchBytes of the real engine and checks: the signature is valid, every operation satisfies EnsureValid, block operations stay within the base's blocks, literal operations do not exceed the size limit, PatchBytes reproduces the target byte for byte, and an unchanged target (target == base) is sent without literal data; pairs are enumerated by increasing length (all distinct by construction); a case is non-trivial when its delta mixes block references and literal data\n")
	fmt.Printf("BOUNDED-RESULT evaluations=%d distinct_nontrivial=%d exhaustive=true\n", evaluations, nontrivial)
	if failures > 0 {
		t.Fail()
	}
}
