package main

import (
	"strconv"
	"encoding/json"
	"flag"
	"fmt"
	"os"
	"path/filepath"
	"regexp"
	"sort"
	"strings"
	"sync"
	"time"
)

type propFunc struct {
	Name   string
	Labels []string
}

type PropSpec struct {
	ID         string
	Packages   []string
	Funcs      []propFunc
	Lemmas     []string
	NotCovered []string
	Assumes    []string
	Bounded    []string
	BoundedRuns []boundedRun // bounded stand-ins executed on the real code (bounded.go)
	Replays    map[string]string // obligation-name regexp -> replay template
	DeadCovers map[string]bool
}

func loadProp(path string) (*PropSpec, error) {
	data, err := os.ReadFile(path)
	if err != nil {
		return nil, err
	}
	ps := &PropSpec{Replays: map[string]string{}}
	for _, l := range strings.Split(string(data), "\n") {
		l = strings.TrimSpace(l)
		if l == "" || strings.HasPrefix(l, "#") {
			continue
		}
		kw, rest := splitKeyword(l)
		switch kw {
		case "id":
			ps.ID = rest
		case "packages":
			ps.Packages = append(ps.Packages, strings.Fields(rest)...)
		case "func":
			f := strings.Fields(rest)
			pf := propFunc{Name: f[0]}
			if len(f) > 1 {
				pf.Labels = strings.Split(f[1], ",")
			} else {
				pf.Labels = []string{"*"}
			}
			ps.Funcs = append(ps.Funcs, pf)
		case "lemma":
			ps.Lemmas = append(ps.Lemmas, rest)
		case "notcovered":
			ps.NotCovered = append(ps.NotCovered, rest)
		case "assumption":
			ps.Assumes = append(ps.Assumes, rest)
		case "bounded":
			ps.Bounded = append(ps.Bounded, rest)
		case "boundedrun":
			f := strings.Fields(rest)
			if len(f) != 2 {
				return nil, fmt.Errorf("%s: boundedrun wants <template.go> <label>", path)
			}
			ps.BoundedRuns = append(ps.BoundedRuns, boundedRun{Template: f[0], Label: f[1]})
		case "deadcover":
			// a contract point that is unreachable on the unchanged tree
			// (dead code after inlining constants); not a vacuity alarm
			if ps.DeadCovers == nil {
				ps.DeadCovers = map[string]bool{}
			}
			ps.DeadCovers[strings.TrimSpace(rest)] = true
		case "replay":
			f := strings.Fields(rest)
			if len(f) == 2 {
				ps.Replays[f[0]] = f[1]
			}
		default:
			return nil, fmt.Errorf("%s: unknown directive %q", path, l)
		}
	}
	return ps, nil
}

// extraKinds (env GOVC_EXTRA_KINDS, comma separated) are obligation kinds
// treated as claimed for every listed function: used by selftest/safetysweep.py
// to find the safety classes (bounds, nil, conv, ...) that discharge on the
// unchanged tree but are missing from a label list.
var extraKinds = func() map[string]bool {
	m := map[string]bool{}
	for _, k := range strings.Split(os.Getenv("GOVC_EXTRA_KINDS"), ",") {
		if k != "" {
			m[k] = true
		}
	}
	return m
}()

func labelMatch(labels []string, o *Obligation) bool {
	if o.Kind == "cover" || o.Kind == "binding" {
		return true
	}
	if extraKinds[o.Kind] {
		return true
	}
	for _, l := range labels {
		if l == "*" {
			return true
		}
		if ok, _ := filepath.Match(l, o.Label); ok {
			return true
		}
		if l == o.Kind {
			return true
		}
	}
	return false
}

// claimedByOtherProp reports whether some other prop file lists function fn
// with a label list that claims obligation o.
func claimedByOtherProp(verif, self, fn string, o *Obligation) bool {
	otherPropsOnce.Do(func() {
		files, _ := filepath.Glob(filepath.Join(verif, "props", "C*.prop"))
		for _, f := range files {
			ps, err := loadProp(f)
			if err != nil {
				continue
			}
			if ps.ID == "" {
				ps.ID = strings.TrimSuffix(filepath.Base(f), ".prop")
			}
			otherProps = append(otherProps, ps)
		}
	})
	for _, ps := range otherProps {
		if ps.ID == self {
			continue
		}
		for _, pf := range ps.Funcs {
			if pf.Name == fn && labelMatch(pf.Labels, o) {
				return true
			}
		}
	}
	return false
}

var (
	otherProps     []*PropSpec
	otherPropsOnce sync.Once
)

type finding struct {
	Property   string
	Obligation string
	Text       string
	Fixed      bool
}

func loadFindings(path string) []finding {
	data, err := os.ReadFile(path)
	if err != nil {
		return nil
	}
	var out []finding
	re := regexp.MustCompile(`^finding:\s+property=(\S+)\s+obligation=(\S+)\s*(.*)$`)
	for _, l := range strings.Split(string(data), "\n") {
		l = strings.TrimSpace(l)
		if m := re.FindStringSubmatch(l); m != nil {
			out = append(out, finding{Property: m[1], Obligation: m[2], Text: m[3]})
		}
	}
	return out
}

func main() {
	if len(os.Args) < 2 {
		fmt.Fprintln(os.Stderr, "usage: govc <list|check|dump> ...")
		os.Exit(2)
	}
	switch os.Args[1] {
	case "list":
		p, err := loadProgram("/repo", os.Args[2:])
		if err != nil {
			fmt.Fprintln(os.Stderr, err)
			os.Exit(2)
		}
		for _, n := range p.sortedFuncNames() {
			fmt.Println(n)
		}
	case "check":
		os.Exit(cmdCheck(os.Args[2:]))
	case "replay":
		os.Exit(cmdReplay(os.Args[2:]))
	case "audit":
		os.Exit(cmdAudit(os.Args[2:]))
	default:
		fmt.Fprintln(os.Stderr, "unknown command")
		os.Exit(2)
	}
}

type oblItem = struct {
	vc *VC
	o  *Obligation
}

func cmdCheck(args []string) int {
	fs := flag.NewFlagSet("check", flag.ExitOnError)
	propID := fs.String("property", "", "property id")
	tier := fs.String("tier", "quick", "quick|thorough")
	repo := fs.String("repo", "/repo", "repository")
	verif := fs.String("verif", "/verif", "verif directory")
	dump := fs.String("dump", "", "directory to dump all queries into")
	only := fs.String("only", "", "regexp: only obligations whose name matches")
	verbose := fs.Bool("v", false, "verbose")
	noSolve := fs.Bool("nosolve", false, "with --dump: write the queries and stop")
	fs.Parse(args)
	start := time.Now()
	seed := 0
	fmt.Sscanf(os.Getenv("VERIF_SEED"), "%d", &seed)

	ps, err := loadProp(filepath.Join(*verif, "props", *propID+".prop"))
	if err != nil {
		fmt.Fprintln(os.Stderr, "govc:", err)
		return 2
	}
	if ps.ID == "" {
		ps.ID = *propID
	}
	// bounded stand-ins run beside the proof (they only need the go tool)
	boundedResults = nil
	boundedDone := make(chan boundedResult, len(ps.BoundedRuns))
	nBounded := 0
	for _, br := range ps.BoundedRuns {
		if *only != "" {
			if ok, _ := regexp.MatchString(*only, "bounded:"+br.Label); !ok {
				continue
			}
		}
		nBounded++
		go func(br boundedRun) { boundedDone <- runBounded(*verif, *repo, *tier, seed, br) }(br)
	}
	var prog *Program
	specs := newSpecDB()
	if len(ps.Funcs) > 0 || len(ps.Lemmas) > 0 {
		// (a property decided only by bounded stand-ins loads nothing)
		var err error
		prog, err = loadProgram(*repo, ps.Packages)
		if err != nil {
			fmt.Fprintln(os.Stderr, "govc: load failed:", err)
			return 2
		}
		if err := specs.loadExterns(filepath.Join(*verif, "govc", "externs")); err != nil {
			fmt.Fprintln(os.Stderr, "govc: extern contracts:", err)
			return 2
		}
		if err := specs.loadRepoContracts(prog); err != nil {
			fmt.Fprintln(os.Stderr, "govc: contracts:", err)
			return 2
		}
	}
	loadMs := time.Since(start).Milliseconds()

	var items []oblItem
	var vcs []*VC
	var funcsUnderContract []string
	var bindingFailures []string
	infra := false
	orphans := 0
	for _, pf := range ps.Funcs {
		fn := prog.Funcs[pf.Name]
		fc := specs.contractFor(pf.Name)
		if fn == nil || fc == nil {
			bindingFailures = append(bindingFailures, pf.Name)
			continue
		}
		funcsUnderContract = append(funcsUnderContract, pf.Name)
		if fc.Opaque {
			continue
		}
		vc := generate(prog, specs, fn, fc)
		vcs = append(vcs, vc)
		if len(vc.errs) > 0 {
			// A contract clause that cannot be evaluated against the code (a
			// field it names changed its type, a local disappeared) means the
			// proof no longer covers the tree: reported like a failed
			// binding, not as a silent infrastructure exit.
			for _, e := range vc.errs {
				fmt.Fprintf(os.Stderr, "govc: %s: %s\n", pf.Name, e)
			}
			bindingFailures = append(bindingFailures, pf.Name+":contract-does-not-fit-the-code")
		}
		for _, o := range vc.obls {
			if labelMatch(pf.Labels, o) {
				items = append(items, oblItem{vc, o})
				continue
			}
			// Soundness of label lists: a clause that proofs ASSUME (a
			// postcondition, a loop invariant, a frame, a channel invariant)
			// must be PROVED under some property. If no prop file claims it,
			// every property that lists the function has to prove it
			// ("orphan" clause). Clauses labelled [abs] are declared
			// abstractions (uninterpreted definitions of recursive helpers):
			// they are recorded as trusted, never silently assumed.
			if !assumptionBearing(o.Kind) {
				continue
			}
			if o.Label == "abs" {
				vc.trusted["declared abstraction clause (assumed, not proved) "+pf.Name+" ensures[abs] "+truncate(o.Src, 120)] = true
				continue
			}
			if !claimedByOtherProp(*verif, ps.ID, pf.Name, o) {
				items = append(items, oblItem{vc, o})
				orphans++
			}
		}
	}
	if orphans > 0 && *verbose {
		fmt.Fprintf(os.Stderr, "govc: %d clause obligations outside the label lists are claimed here because no other property proves them\n", orphans)
	}
	// lemmas used by the functions under contract are proved in the same run
	for _, vc := range vcs {
		for _, ul := range vc.usedLemmas {
			found := false
			for _, ln := range ps.Lemmas {
				if ln == ul {
					found = true
				}
			}
			if !found {
				ps.Lemmas = append(ps.Lemmas, ul)
			}
		}
	}
	for _, ln := range ps.Lemmas {
		k := strings.LastIndex(ln, ".")
		pkgKey, name := ln[:k], ln[k+1:]
		pc := specs.pkgs[pkgKey]
		if pc == nil || pc.Lemmas[name] == nil {
			bindingFailures = append(bindingFailures, "lemma "+ln)
			continue
		}
		vc := generateLemma(prog, specs, pkgKey, pc.Lemmas[name])
		vcs = append(vcs, vc)
		if len(vc.errs) > 0 {
			for _, e := range vc.errs {
				fmt.Fprintf(os.Stderr, "govc: lemma %s: %s\n", ln, e)
			}
			infra = true
		}
		funcsUnderContract = append(funcsUnderContract, "lemma "+ln)
		for _, o := range vc.obls {
			items = append(items, oblItem{vc, o})
		}
	}
	if infra {
		fmt.Fprintln(os.Stderr, "govc: contract errors; aborting (infrastructure failure)")
		return 2
	}
	if *only != "" {
		re := regexp.MustCompile(*only)
		var keep []oblItem
		for _, it := range items {
			if re.MatchString(it.o.Name) {
				keep = append(keep, it)
			}
		}
		items = keep
	}
	genMs := time.Since(start).Milliseconds() - loadMs

	// GOVC_SCRATCH_DIR: parent of the query directory (default /var/tmp), so
	// that concurrent users of the machine cannot clean it away mid-run
	scratchParent := "/var/tmp"
	if d := os.Getenv("GOVC_SCRATCH_DIR"); d != "" {
		if err := os.MkdirAll(d, 0o755); err == nil {
			scratchParent = d
		}
	}
	scratch, err := os.MkdirTemp(scratchParent, "govc-")
	if err != nil {
		fmt.Fprintln(os.Stderr, "govc:", err)
		return 2
	}
	defer os.RemoveAll(scratch)
	if *dump != "" {
		os.MkdirAll(*dump, 0o755)
		for i, it := range items {
			os.WriteFile(filepath.Join(*dump, fmt.Sprintf("%03d-%s.smt2", i, sanitize(it.o.Name))), []byte("; "+it.o.Name+"\n; "+it.o.Src+"\n"+it.vc.queryText(it.o, true)), 0o644)
		}
	}
	if *noSolve {
		fmt.Printf("%d queries written to %s\n", len(items), *dump)
		return 0
	}
	// nominal effort per obligation in milliseconds on an idle machine; the
	// z3 solvers get it as a deterministic resource limit (solve.go)
	timeout := 20000
	if *tier == "thorough" {
		timeout = 120000
	}
	for _, vc := range vcs {
		vc.slicer() // built once, before the parallel phase
	}
	solveStart := time.Now()
	jobs := 16
	if n, err := strconv.Atoi(os.Getenv("GOVC_JOBS")); err == nil && n > 0 {
		jobs = n
	}
	dischargeAll(items, scratch, timeout, jobs)
	thoroughCross, thoroughTeeth = nil, nil
	if *tier == "thorough" && *only == "" {
		thoroughCross = crossCheck(items, scratch, 20000, jobs)
	}
	solveWall := time.Since(solveStart).Seconds()

	// ------------------------------------------------------------ verdicts
	findings := loadFindings(filepath.Join(*verif, "known_findings.txt"))
	isKnown := func(name string) *finding {
		for i := range findings {
			if findings[i].Property == ps.ID && findings[i].Obligation == name {
				return &findings[i]
			}
		}
		return nil
	}
	nObl, nDis, nCover := 0, 0, 0
	var solverMs int64
	var failed, vacuous []*Obligation
	var known []*Obligation
	bySolver := map[string]int{}
	var samples []map[string]interface{}
	for _, it := range items {
		o := it.o
		solverMs += o.Ms
		if o.IsCover {
			nCover++
			if o.Status == "failed-vacuous" {
				vacuous = append(vacuous, o)
			}
			continue
		}
		nObl++
		if o.Status == "discharged" {
			nDis++
			bySolver[o.Solver]++
			if len(samples) < 12 {
				samples = append(samples, map[string]interface{}{"obligation": o.Name, "kind": o.Kind, "clause": o.Src, "solver": o.Solver, "ms": o.Ms, "rlimit": o.Rlimit})
			}
			continue
		}
		if isKnown(o.Name) != nil {
			known = append(known, o)
		} else {
			failed = append(failed, o)
		}
		if *verbose {
			fmt.Fprintf(os.Stderr, "FAILED %s [%s] %s\n", o.Name, o.Status, o.Src)
		}
	}
	if *verbose {
		for _, it := range items {
			fmt.Fprintf(os.Stderr, "%-16s %6dms %10d %-8s %s\n", it.o.Status, it.o.Ms, it.o.Rlimit, it.o.Solver, it.o.Name)
		}
		for _, vc := range vcs {
			for _, w := range vc.warnings {
				fmt.Fprintf(os.Stderr, "warning: %s: %s\n", vc.fname, w)
			}
		}
	}
	exit := 0
	outDir := filepath.Join(*verif, "out", "replays")
	if d := os.Getenv("GOVC_REPLAY_DIR"); d != "" {
		outDir = d // self-tests on mutated scratch trees keep their replay files apart
	}
	os.MkdirAll(outDir, 0o755)
	violations := 0
	for _, name := range bindingFailures {
		violations++
		path := filepath.Join(outDir, fmt.Sprintf("%s-binding-%s.json", ps.ID, sanitize(name)))
		writeJSON(path, map[string]interface{}{"property": ps.ID, "obligation": name + ":binding", "status": "failed-binding",
			"explanation": "the contract or the function it is keyed to no longer exists; the proof does not cover the tree", "verdict": "no-input"})
		fmt.Printf("VIOLATION property=%s replay=%s obligation=%s:binding no-failing-input-found\n", ps.ID, path, name)
		exit = 1
	}
	// Vacuity guard. Contradictory preconditions are a defect of the contract
	// itself (infrastructure failure). A return or loop body that the solver
	// proves unreachable under the contract's assumptions means the code and
	// the assumed contracts contradict each other: the proof no longer says
	// anything about that code, which is reported as a violation without a
	// failing input.
	for _, o := range vacuous {
		if ps.DeadCovers[o.Name] {
			continue
		}
		if strings.HasSuffix(o.Name, ":cover:requires") {
			fmt.Fprintf(os.Stderr, "govc: VACUITY: %s: contradictory preconditions; nothing reported by this run can be believed\n", o.Name)
			writeEvidence(*verif, ps, *tier, seed, nObl, nDis, nCover, funcsUnderContract, bySolver, samples, vcs, float64(solverMs)/1000, time.Since(start).Seconds(), violations, known, loadMs, genMs, solveWall, true)
			return 2
		}
		o.Src = o.Src + " (proved unreachable: the code contradicts the assumed contracts, so obligations behind it hold vacuously)"
		if isKnown(o.Name) != nil {
			known = append(known, o)
		} else {
			failed = append(failed, o)
		}
	}
	for _, o := range failed {
		violations++
		path := filepath.Join(outDir, fmt.Sprintf("%s-%s.json", ps.ID, sanitize(strings.ReplaceAll(o.Name, "/", "_"))+fmt.Sprintf("-%d", violations)))
		verdict, extra := runReplay(*verif, *repo, ps, o)
		rec := map[string]interface{}{"property": ps.ID, "obligation": o.Name, "kind": o.Kind, "clause": o.Src, "status": o.Status,
			"solver": o.Solver, "solver_output": o.Output, "model": truncate(o.Model, 20000), "verdict": verdict}
		for k, v := range extra {
			rec[k] = v
		}
		writeJSON(path, rec)
		if verdict == "confirmed" {
			fmt.Printf("VIOLATION property=%s replay=%s obligation=%s\n", ps.ID, path, o.Name)
		} else {
			fmt.Printf("VIOLATION property=%s replay=%s obligation=%s no-failing-input-found\n", ps.ID, path, o.Name)
		}
		exit = 1
	}
	for _, o := range known {
		f := isKnown(o.Name)
		fmt.Printf("KNOWN-FINDING: property=%s %s %s\n", ps.ID, o.Name, f.Text)
	}
	// bounded stand-ins: every failing input is a violation replayed on the
	// real code by construction; an inconclusive run is an infrastructure failure
	boundedInfra := false
	for i := 0; i < nBounded; i++ {
		br := <-boundedDone
		boundedResults = append(boundedResults, br)
		name := "bounded:" + br.Label
		switch br.Status {
		case "failed":
			path := filepath.Join(outDir, fmt.Sprintf("%s-bounded-%s.json", ps.ID, sanitize(br.Label)))
			writeJSON(path, map[string]interface{}{"property": ps.ID, "obligation": name, "kind": "bounded", "clause": br.Rule, "status": "failed-input",
				"verdict": "confirmed", "failing_inputs": br.Failures, "pkgdir": br.Pkgdir, "template": br.Template, "tier": *tier, "seed": strconv.Itoa(seed),
				"go_test_source": br.Source, "go_test_output": truncate(br.Output, 8000)})
			if f := isKnown(name); f != nil {
				fmt.Printf("KNOWN-FINDING: property=%s %s %s\n", ps.ID, name, f.Text)
			} else {
				violations++
				fmt.Printf("VIOLATION property=%s replay=%s obligation=%s input=%s\n", ps.ID, path, name, truncate(br.Failures[0], 300))
				exit = 1
			}
		case "ok":
		default:
			fmt.Fprintf(os.Stderr, "govc: bounded stand-in %s (%s) was inconclusive (build failure, panic or timeout):\n%s\n", br.Label, br.Template, truncate(tailLines(br.Output, 30), 4000))
			boundedInfra = true
		}
	}
	sort.Slice(boundedResults, func(i, j int) bool { return boundedResults[i].Label < boundedResults[j].Label })
	if boundedInfra {
		return 2
	}
	if thoroughCross != nil && len(thoroughCross.Disagreements) > 0 {
		for _, d := range thoroughCross.Disagreements {
			fmt.Fprintln(os.Stderr, "govc: SOLVER DISAGREEMENT:", d)
		}
		writeEvidence(*verif, ps, *tier, seed, nObl, nDis, nCover, funcsUnderContract, bySolver, samples, vcs, float64(solverMs)/1000, time.Since(start).Seconds(), violations, known, loadMs, genMs, solveWall, true)
		return 2
	}
	if *tier == "thorough" && *only == "" && os.Getenv("GOVC_NO_TEETH") == "" {
		thoroughTeeth = runTeeth(*verif, *repo, ps.ID)
		for _, m := range thoroughTeeth.Missed {
			fmt.Fprintf(os.Stderr, "govc: WARNING: must-fail mutant not caught (a contract lost strength; the verdict about this tree is unaffected): %s\n", m)
		}
	}
	if nObl == 0 && len(bindingFailures) == 0 && nBounded == 0 {
		fmt.Fprintln(os.Stderr, "govc: zero obligations generated; vacuity guard failed")
		return 2
	}
	writeEvidence(*verif, ps, *tier, seed, nObl, nDis, nCover, funcsUnderContract, bySolver, samples, vcs, float64(solverMs)/1000, time.Since(start).Seconds(), violations, known, loadMs, genMs, solveWall, false)
	fmt.Printf("property %s: %d obligations, %d discharged, %d known findings, %d violations, %d cover checks (load %.1fs, vcgen %.1fs, solve %.1fs)\n",
		ps.ID, nObl, nDis, len(known), violations, nCover, float64(loadMs)/1000, float64(genMs)/1000, solveWall)
	return exit
}

func writeJSON(path string, v interface{}) {
	data, _ := json.MarshalIndent(v, "", " ")
	os.WriteFile(path, data, 0o644)
}

func writeEvidence(verif string, ps *PropSpec, tier string, seed, nObl, nDis, nCover int, funcs []string, bySolver map[string]int,
	samples []map[string]interface{}, vcs []*VC, solverS, wall float64, violations int, known []*Obligation, loadMs, genMs int64, solveWall float64, vacuous bool) {
	trusted := map[string]bool{}
	assumes := map[string]bool{}
	warnings := map[string]bool{}
	inlined := map[string]bool{}
	for _, vc := range vcs {
		for t := range vc.trusted {
			trusted["trusted contract: "+t] = true
		}
		for a := range vc.assumes {
			assumes[a] = true
		}
		for _, w := range vc.warnings {
			warnings[vc.fname+": "+w] = true
		}
		for f := range vc.inlined {
			inlined[f] = true
		}
	}
	tb := keys(trusted)
	tb = append(tb, "govc SSA-to-SMT translator (/verif/govc)", "go/ssa builder and go/types of golang.org/x/tools v0.50.0", "z3 4.8.12 / z3 5.1.0 / cvc5 1.0")
	as := append([]string{
		"signed machine arithmetic treated as mathematical integers; unsigned add/mul/shl wrap modulo 2^w, unsigned subtraction and narrowing conversions are obligations unless the contract says wraps",
		"single-call semantics: no interference from other goroutines except through declared lock/channel invariants",
		"no unsafe, no reflection; stdlib packages errors/fmt/strings/strconv/bytes/sync/time/... do not write memory the caller can read (except listed exceptions)",
		"partial correctness: termination is not proved",
	}, ps.Assumes...)
	as = append(as, keys(assumes)...)
	var kf []string
	for _, o := range known {
		kf = append(kf, o.Name)
	}
	level := "proof"
	if nObl == 0 && len(boundedResults) > 0 {
		level = "exploration"
	}
	ev := map[string]interface{}{
		"property_id": ps.ID,
		"tier":        tier,
		"seed":        seed,
		"level":       level,
		"coverage": map[string]interface{}{
			"obligations":              nObl,
			"discharged":               nDis,
			"checker_cmd":              fmt.Sprintf("/verif/bin/govc check --property %s --tier %s", ps.ID, tier),
			"trusted_base":             tb,
			"functions_under_contract": funcs,
			"functions_inlined":        keys(inlined),
			"discharged_by_solver":     bySolver,
			"cover_checks":             nCover,
			"samples":                  samples,
			"solver_time_s":            solverS,
			"phase_s":                  map[string]float64{"load": float64(loadMs) / 1000, "vcgen": float64(genMs) / 1000, "solve_wall": solveWall},
			"not_covered":              ps.NotCovered,
			"known_findings":           kf,
			"translator_warnings":      keys(warnings),
			"bounded_checks":           ps.Bounded,
			"bounded_runs":             boundedResults,
			"thorough_cross_check":     thoroughCross,
			"thorough_teeth_run":       thoroughTeeth,
			"vacuity_guard_failed":     vacuous,
		},
		"assumptions": as,
		"wall_s":      wall,
		"violations":  violations,
	}
	if len(boundedResults) > 0 {
		// exploration-style counts of the bounded stand-ins (measured by the
		// stand-ins themselves); they are never added to obligations/discharged
		cov := ev["coverage"].(map[string]interface{})
		ne, nd := 0, 0
		exh := true
		var rules, bsamples []string
		for _, br := range boundedResults {
			ne += br.Evaluations
			nd += br.Distinct
			exh = exh && br.Exhaustive
			rules = append(rules, br.Label+": "+br.Rule+" Bound: "+br.Bound)
			for _, sm := range br.Samples {
				bsamples = append(bsamples, br.Label+": "+sm)
			}
		}
		cov["evaluations"] = ne
		cov["distinct_nontrivial"] = nd
		cov["exhaustive"] = exh
		cov["rule"] = "bounded stand-ins (never counted as proved): " + strings.Join(rules, " | ")
		if level == "exploration" {
			var ss []interface{}
			for _, b := range bsamples {
				ss = append(ss, b)
			}
			cov["samples"] = ss
		} else {
			cov["bounded_samples"] = bsamples
		}
	}
	// self-tests on deliberately broken trees must not overwrite the evidence
	// of the unchanged tree
	evdir := filepath.Join(verif, "evidence")
	if d := os.Getenv("GOVC_EVIDENCE_DIR"); d != "" {
		evdir = d
	}
	os.MkdirAll(evdir, 0o755)
	writeJSON(filepath.Join(evdir, ps.ID+".json"), ev)
}

// boundedResults holds the results of this run's bounded stand-ins.
var boundedResults []boundedResult

func tailLines(s string, n int) string {
	ls := strings.Split(strings.TrimRight(s, "\n"), "\n")
	if len(ls) > n {
		ls = ls[len(ls)-n:]
	}
	return strings.Join(ls, "\n")
}

func keys(m map[string]bool) []string {
	out := []string{}
	for k := range m {
		out = append(out, k)
	}
	sort.Strings(out)
	return out
}
