package main

// Counterexample replay against the real code: a Go test taken from
// /verif/replay/templates is injected into the package with `go test -overlay`
// (nothing is written to /repo) and run against the current working tree.

import (
	"bytes"
	"context"
	"encoding/json"
	"fmt"
	"os"
	"os/exec"
	"path/filepath"
	"regexp"
	"strings"
	"time"
)

// modelValues extracts "(define-fun |name| () Sort value)" entries of a z3
// model for scalar values.
func modelValues(model string) map[string]string {
	out := map[string]string{}
	re := regexp.MustCompile(`\(define-fun (\|[^|]*\||[^ ]+) \(\) (Int|Bool)\s+([^\n]*)\)`)
	for _, m := range re.FindAllStringSubmatch(model, -1) {
		name := strings.Trim(m[1], "|")
		val := strings.TrimSpace(m[3])
		val = strings.TrimSuffix(val, ")")
		if strings.HasPrefix(val, "(- ") {
			val = "-" + strings.TrimSuffix(strings.TrimPrefix(val, "(- "), ")")
		}
		out[name] = strings.TrimSpace(val)
	}
	// slices: (define-fun |p:x| () Slice (mk-slice b o l c))
	re2 := regexp.MustCompile(`\(define-fun (\|[^|]*\||[^ ]+) \(\) Slice\s+\(mk-slice ([^)]*)\)\)`)
	for _, m := range re2.FindAllStringSubmatch(model, -1) {
		name := strings.Trim(m[1], "|")
		f := strings.Fields(m[2])
		if len(f) == 4 {
			out[name+".len"] = f[2]
			out[name+".cap"] = f[3]
		}
	}
	return out
}

func replayObligation(verif, repo string, ps *PropSpec, o *Obligation) (string, map[string]interface{}) {
	var tmpl string
	for pat, t := range ps.Replays {
		re, err := regexp.Compile(pat)
		if err != nil {
			continue
		}
		if re.MatchString(o.Name) {
			tmpl = t
			break
		}
	}
	if tmpl == "" {
		return "no-input", map[string]interface{}{"replay": "no replay template for this obligation"}
	}
	src, err := os.ReadFile(filepath.Join(verif, "replay", "templates", tmpl))
	if err != nil {
		return "no-input", map[string]interface{}{"replay": "template missing: " + err.Error()}
	}
	text := string(src)
	pkgdir := ""
	for _, l := range strings.Split(text, "\n") {
		if strings.HasPrefix(l, "// pkgdir:") {
			pkgdir = strings.TrimSpace(strings.TrimPrefix(l, "// pkgdir:"))
			break
		}
	}
	if pkgdir == "" {
		return "no-input", map[string]interface{}{"replay": "template has no pkgdir"}
	}
	vals := modelValues(o.Model)
	mj, _ := json.Marshal(vals)
	text = strings.ReplaceAll(text, "{{MODEL_JSON}}", strings.ReplaceAll(string(mj), "`", "'"))
	dir, err := os.MkdirTemp("/var/tmp", "govc-replay-")
	if err != nil {
		return "no-input", map[string]interface{}{"replay": err.Error()}
	}
	defer os.RemoveAll(dir)
	testFile := filepath.Join(dir, "zz_replay_test.go")
	os.WriteFile(testFile, []byte(text), 0o644)
	ov := map[string]interface{}{"Replace": map[string]string{filepath.Join(repo, pkgdir, "zz_replay_test.go"): testFile}}
	ovj, _ := json.Marshal(ov)
	ovFile := filepath.Join(dir, "overlay.json")
	os.WriteFile(ovFile, ovj, 0o644)
	ctx, cancel := context.WithTimeout(context.Background(), 150*time.Second)
	defer cancel()
	cmd := exec.CommandContext(ctx, "go", "test", "-overlay", ovFile, "-vet=off", "-timeout", "90s", "-count=1", "-run", "^TestReplay", "-v", "./"+pkgdir)
	cmd.Dir = repo
	cmd.Env = append(os.Environ(), "GOFLAGS=-mod=mod", "GOPROXY=off", "GOTOOLCHAIN=local", "GOSUMDB=off", "MUTAGEN_DATA_DIRECTORY="+dir)
	var out bytes.Buffer
	cmd.Stdout, cmd.Stderr = &out, &out
	_ = cmd.Run()
	output := out.String()
	verdict := "not-reproduced"
	if strings.Contains(output, "REPLAY-CONFIRMED") {
		verdict = "confirmed"
	} else if !strings.Contains(output, "REPLAY-NOT-REPRODUCED") {
		verdict = "no-input"
	}
	return verdict, map[string]interface{}{"template": tmpl, "model_values": vals, "go_test_source": text, "go_test_output": truncate(output, 6000),
		"replay_cmd": fmt.Sprintf("go test -overlay <ov> -vet=off -run ^TestReplay ./%s", pkgdir)}
}
