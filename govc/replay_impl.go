package main

func replayObligation(verif, repo string, ps *PropSpec, o *Obligation) (string, map[string]interface{}) {
	return "no-input", map[string]interface{}{"replay": "no replay template for this obligation"}
}
