package main

// Evaluation of contract expressions into SMT terms over a symbolic state.

import (
	"fmt"
	"sync"
	"go/constant"
	"go/types"
	"sort"
	"strings"

	"golang.org/x/tools/go/ssa"
)

type TV struct {
	T   Term
	Typ types.Type // Go type when known (needed for field/index resolution); nil for pure spec values
}

type Env struct {
	vc     *VC
	vars   map[string]TV
	st     *State
	old    *State
	pre    *State
	prev   *State // loop-head state of the current iteration (back edges only)
	fr     *Frame
	pkg    *types.Package
	pkgKey string // short package path for macro lookup
	depth  int
	inOld  bool
	bound  bool // inside a quantifier: terms may mention bound variables
	lastUnfolds []unfoldT
	noUnfold bool        // do not emit unfoldings of recursive spec functions
	unfolds  *[]unfoldT  // collects unfolding templates for terms with bound variables
	cst    *State // state supplying local cells (current even inside old()); nil = st
	capOld bool   // closure contract: inside old(), captured variables denote their values in the old state
}

func (e *Env) with(vars map[string]TV) *Env {
	n := *e
	n.vars = map[string]TV{}
	for k, v := range e.vars {
		n.vars[k] = v
	}
	for k, v := range vars {
		n.vars[k] = v
	}
	return &n
}

func (e *Env) cellState() *State {
	if e.cst != nil {
		return e.cst
	}
	return e.st
}

func (e *Env) inState(st *State) *Env {
	n := *e
	n.st = st
	return &n
}

var tInt = types.Typ[types.Int]
var tBool = types.Typ[types.Bool]

func (e *Env) evalBool(x Expr) (Term, error) {
	tv, err := e.eval(x)
	if err != nil {
		return Term{}, err
	}
	if tv.T.Sort != SBool {
		return Term{}, fmt.Errorf("boolean expected, got sort %s for %v", tv.T.Sort, exprString(x))
	}
	return tv.T, nil
}

func (e *Env) eval(x Expr) (TV, error) {
	vc := e.vc
	switch x := x.(type) {
	case *EInt:
		return TV{Term{smtNum(x.V), SInt}, nil}, nil
	case *EBool:
		if x.V {
			return TV{tTrue, tBool}, nil
		}
		return TV{tFalse, tBool}, nil
	case *EStr:
		return TV{vc.strConst(x.V), types.Typ[types.String]}, nil
	case *ENil:
		return TV{tZero, types.Typ[types.UntypedNil]}, nil
	case *EIdent:
		return e.ident(x.Name)
	case *EUn:
		v, err := e.eval(x.X)
		if err != nil {
			return TV{}, err
		}
		if x.Op == "!" {
			if v.T.Sort != SBool {
				return TV{}, fmt.Errorf("! on non-bool %s", exprString(x.X))
			}
			return TV{not(v.T), tBool}, nil
		}
		return TV{T(SInt, "(- %s)", v.T.S), v.Typ}, nil
	case *EBin:
		return e.binary(x)
	case *ECond:
		c, err := e.evalBool(x.C)
		if err != nil {
			return TV{}, err
		}
		a, err := e.eval(x.A)
		if err != nil {
			return TV{}, err
		}
		b, err := e.eval(x.B)
		if err != nil {
			return TV{}, err
		}
		a, b = e.unifyNil(a, b)
		if a.T.Sort != b.T.Sort {
			return TV{}, fmt.Errorf("?: branches differ in sort: %s vs %s", a.T.Sort, b.T.Sort)
		}
		typ := a.Typ
		if typ == nil {
			typ = b.Typ
		}
		return TV{ite(c, a.T, b.T), typ}, nil
	case *EQuant:
		v := quote("q:" + x.Var)
		qs := x.varSort()
		qt, err := e.quantVarType(x)
		if err != nil {
			return TV{}, err
		}
		env := e.with(map[string]TV{x.Var: {Term{v, qs}, qt}})
		env.bound = true
		body, err := env.evalBool(x.Body)
		if err != nil {
			return TV{}, err
		}
		rng := tTrue
		if x.Lo != nil {
			lo, err := e.eval(x.Lo)
			if err != nil {
				return TV{}, err
			}
			hi, err := e.eval(x.Hi)
			if err != nil {
				return TV{}, err
			}
			rng = and(le(lo.T, Term{v, SInt}), lt(Term{v, SInt}, hi.T))
		}
		if x.Forall {
			return TV{T(SBool, "(forall ((%s %s)) %s)", v, qs, implies(rng, body).S), tBool}, nil
		}
		return TV{T(SBool, "(exists ((%s %s)) %s)", v, qs, and(rng, body).S), tBool}, nil
	case *EField:
		return e.field(x)
	case *EIndex:
		xv, err := e.eval(x.X)
		if err != nil {
			return TV{}, err
		}
		iv, err := e.eval(x.I)
		if err != nil {
			return TV{}, err
		}
		return e.index(xv, iv, x)
	case *ESlice:
		xv, err := e.eval(x.X)
		if err != nil {
			return TV{}, err
		}
		if x.Lo == nil {
			return TV{}, fmt.Errorf("[*] is only allowed in modifies clauses")
		}
		lo, err := e.eval(x.Lo)
		if err != nil {
			return TV{}, err
		}
		if xv.T.Sort == SStr {
			// substring s[lo:hi] (same term the translator builds for the Go expression)
			hi := TV{T(SInt, "(slen %s)", xv.T.S), tInt}
			if x.Hi != nil {
				hi, err = e.eval(x.Hi)
				if err != nil {
					return TV{}, err
				}
			}
			return TV{e.vc.strSub(xv.T, lo.T, hi.T), types.Typ[types.String]}, nil
		}
		if xv.T.Sort != SSlice {
			return TV{}, fmt.Errorf("slice expression on non-slice %s", exprString(x.X))
		}
		hi := TV{sLen(xv.T), tInt}
		if x.Hi != nil {
			hi, err = e.eval(x.Hi)
			if err != nil {
				return TV{}, err
			}
		}
		return TV{mkSlice(sBase(xv.T), add(sOff(xv.T), lo.T), sub(hi.T, lo.T), sub(sCap(xv.T), lo.T)), xv.Typ}, nil
	case *ECall:
		return e.call(x)
	case *EMethod:
		if id, ok := x.X.(*EIdent); ok && !e.isVariable(id.Name) {
			// package-qualified macro or Go function
			return e.call(&ECall{Fn: id.Name + "." + x.Name, Args: x.Args})
		}
		recv, err := e.eval(x.X)
		if err != nil {
			return TV{}, err
		}
		if recv.Typ == nil {
			return TV{}, fmt.Errorf("method %s on untyped value %s", x.Name, exprString(x.X))
		}
		fn := e.vc.lookupMethod(recv.Typ, x.Name)
		if fn == nil {
			return TV{}, fmt.Errorf("no method %s on %s", x.Name, recv.Typ)
		}
		args := []TV{recv}
		for _, a := range x.Args {
			v, err := e.eval(a)
			if err != nil {
				return TV{}, err
			}
			args = append(args, v)
		}
		return e.goCall(fn, args)
	}
	return TV{}, fmt.Errorf("unsupported expression %T", x)
}

// isVariable reports whether a name denotes a bound variable, parameter,
// local or ghost (as opposed to a package name).
func (e *Env) isVariable(name string) bool {
	if _, ok := e.vars[name]; ok {
		return true
	}
	if e.fr != nil {
		if c, _ := e.fr.cellByName(name, e.cellState()); c != nil {
			return true
		}
		for _, p := range e.fr.fn.Params {
			if p.Name() == name {
				return true
			}
		}
		if len(e.fr.allocsByName[name]) > 0 {
			return true
		}
	}
	if e.vc.specs.ghost(name) != nil {
		return true
	}
	if e.pkg != nil {
		if obj := e.pkg.Scope().Lookup(name); obj != nil {
			if _, isVar := obj.(*types.Var); isVar {
				return true
			}
		}
	}
	return false
}

func (vc *VC) lookupMethod(t types.Type, name string) *ssa.Function {
	for _, tt := range []types.Type{t, types.NewPointer(t)} {
		ms := vc.prog.SSA.MethodSets.MethodSet(tt)
		for i := 0; i < ms.Len(); i++ {
			if ms.At(i).Obj().Name() == name {
				if _, isPtr := t.Underlying().(*types.Pointer); !isPtr && tt != t {
					continue // method needs an addressable receiver
				}
				return vc.prog.SSA.MethodValue(ms.At(i))
			}
		}
	}
	return nil
}

// goCall evaluates a call of a Go function of the repository inside a
// contract: the function body is translated symbolically on a copy of the
// current state; its effects are discarded and its own safety obligations are
// not recorded (they belong to the function's own contract).
func (e *Env) goCall(fn *ssa.Function, args []TV) (TV, error) {
	vc := e.vc
	if e.bound {
		return TV{}, fmt.Errorf("call of Go function %s under a quantifier is not supported", fn.Name())
	}
	if len(fn.Blocks) == 0 {
		return TV{}, fmt.Errorf("Go function %s has no body", fn.Name())
	}
	if fn.Signature.Results().Len() != 1 {
		return TV{}, fmt.Errorf("Go function %s must have exactly one result to be used in a contract", fn.Name())
	}
	if len(args) != len(fn.Params) {
		return TV{}, fmt.Errorf("Go function %s: %d arguments, want %d", fn.Name(), len(args), len(fn.Params))
	}
	saved := vc.muted
	vc.muted = true
	defer func() { vc.muted = saved }()
	// A function with a contract that writes nothing and demands nothing
	// ("pure", no requires) is used through its contract: the value is the
	// contract's result (an uninterpreted function of the arguments when it
	// is "deterministic") with its postconditions assumed. This is a ghost
	// call: it presumes the function terminates on these arguments.
	if fc := vc.specs.contractFor(funcName(fn)); fc != nil && fc.Pure && len(fc.Requires) == 0 && !fc.InlineCalls {
		caller := e.fr
		if caller == nil {
			caller = vc.newFrame(fn, nil)
		}
		var ats []Term
		var tys []types.Type
		for i, a := range args {
			ats = append(ats, a.T)
			tys = append(tys, fn.Params[i].Type())
		}
		st := e.st.clone()
		res := caller.modularCall(fc, fn, nil, ats, tys, fn.Signature, st, tTrue, "spec:"+fn.Name())
		vc.inlined["(contract used in contracts) "+funcName(fn)] = true
		return TV{res[0], fn.Signature.Results().At(0).Type()}, nil
	}
	fr := vc.newFrame(fn, nil)
	fr.depth = 1
	for i, p := range fn.Params {
		fr.vals[p] = args[i].T
	}
	st := e.st.clone()
	fr.entry = st.clone()
	fr.run(st, tTrue)
	if len(fr.rets) == 0 {
		return TV{}, fmt.Errorf("Go function %s never returns", fn.Name())
	}
	var vs, cs []Term
	for _, r := range fr.rets {
		vs = append(vs, r.results[0])
		cs = append(cs, r.guard)
	}
	res := vc.mergeTerms(vs, cs, "spec:"+fn.Name())
	vc.inlined["(in contracts) "+funcName(fn)] = true
	return TV{res, fn.Signature.Results().At(0).Type()}, nil
}

func smtNum(s string) string {
	if strings.HasPrefix(s, "-") {
		return "(- " + s[1:] + ")"
	}
	return s
}

// unifyNil adapts an untyped nil operand to the sort of the other operand.
func (e *Env) unifyNil(a, b TV) (TV, TV) {
	isNil := func(v TV) bool {
		bt, ok := v.Typ.(*types.Basic)
		return ok && bt.Kind() == types.UntypedNil
	}
	if isNil(a) && !isNil(b) {
		a = TV{e.nilOf(b), b.Typ}
	} else if isNil(b) && !isNil(a) {
		b = TV{e.nilOf(a), a.Typ}
	}
	return a, b
}

func (e *Env) nilOf(v TV) Term {
	switch v.T.Sort {
	case SSlice:
		return tNilSl
	case SInt:
		return tZero
	}
	return tZero
}

func (e *Env) binary(x *EBin) (TV, error) {
	switch x.Op {
	case "&&", "||", "==>", "<==>":
		a, err := e.evalBool(x.X)
		if err != nil {
			return TV{}, err
		}
		b, err := e.evalBool(x.Y)
		if err != nil {
			return TV{}, err
		}
		switch x.Op {
		case "&&":
			return TV{and(a, b), tBool}, nil
		case "||":
			return TV{or(a, b), tBool}, nil
		case "==>":
			return TV{implies(a, b), tBool}, nil
		default:
			return TV{eq(a, b), tBool}, nil
		}
	}
	a, err := e.eval(x.X)
	if err != nil {
		return TV{}, err
	}
	b, err := e.eval(x.Y)
	if err != nil {
		return TV{}, err
	}
	switch x.Op {
	case "==", "!=":
		a, b = e.unifyNil(a, b)
		if a.T.Sort != b.T.Sort {
			return TV{}, fmt.Errorf("== on different sorts %s / %s in %s", a.T.Sort, b.T.Sort, exprString(x))
		}
		var r Term
		if a.T.Sort == SSlice && (b.T.S == "nil_slice" || a.T.S == "nil_slice") {
			// Go compares slices only with nil: nil-ness is base == 0.
			other := a.T
			if a.T.S == "nil_slice" {
				other = b.T
			}
			r = eq(sBase(other), tZero)
		} else {
			r = eq(a.T, b.T)
		}
		if x.Op == "!=" {
			r = not(r)
		}
		return TV{r, tBool}, nil
	case "<", "<=", ">", ">=":
		if a.T.Sort != SInt || b.T.Sort != SInt {
			return TV{}, fmt.Errorf("comparison on non-integers in %s", exprString(x))
		}
		return TV{T(SBool, "(%s %s %s)", x.Op, a.T.S, b.T.S), tBool}, nil
	case "+", "-", "*":
		if x.Op == "+" && a.T.Sort == SStr && b.T.Sort == SStr {
			// string concatenation (same axioms as the translator uses)
			return TV{e.vc.strConcat(a.T, b.T), types.Typ[types.String]}, nil
		}
		if a.T.Sort != SInt || b.T.Sort != SInt {
			return TV{}, fmt.Errorf("arithmetic on non-integers in %s", exprString(x))
		}
		typ := a.Typ
		if typ == nil {
			typ = b.Typ
		}
		return TV{T(SInt, "(%s %s %s)", x.Op, a.T.S, b.T.S), typ}, nil
	case "/":
		return TV{e.vc.goDiv(a.T, b.T, !e.bound), a.Typ}, nil
	case "%":
		return TV{e.vc.goMod(a.T, b.T, !e.bound), a.Typ}, nil
	case "&":
		return TV{e.vc.bitAnd(a.T, b.T), a.Typ}, nil
	case "|":
		return TV{e.vc.bitOr(a.T, b.T), a.Typ}, nil
	case "<<":
		return TV{e.vc.shl(a.T, b.T), a.Typ}, nil
	case ">>":
		return TV{e.vc.shr(a.T, b.T), a.Typ}, nil
	}
	return TV{}, fmt.Errorf("unsupported operator %s", x.Op)
}

func (e *Env) ident(name string) (TV, error) {
	if v, ok := e.vars[name]; ok {
		return v, nil
	}
	// local variable of the function (current value of its cell); inside
	// old() parameters denote their entry values
	if e.fr != nil {
		// a name bound by "at call X let NAME = E" on this path
		if t, ok := e.cellState().cells[letKey{name}]; ok {
			return TV{t, e.fr.letTypes[name]}, nil
		}
		if e.inOld {
			// contract of a closure: a captured variable is shared state, not a
			// local of the closure; inside old() it has its value in the old
			// state (entry of the closure / state before the call)
			if e.capOld && e.st != nil {
				if cell, typ := e.fr.cellByName(name, e.st); cell != nil && isCapturedCell(cell) {
					if t, ok := e.st.cells[cell]; ok {
						return TV{t, typ}, nil
					}
				}
			}
			for _, p := range e.fr.fn.Params {
				if p.Name() == name {
					return TV{e.fr.vals[p], p.Type()}, nil
				}
			}
		}
		if cell, typ := e.fr.cellByName(name, e.cellState()); cell != nil {
			t, ok := e.cellState().cells[cell]
			if ok {
				return TV{t, typ}, nil
			}
		}
		for _, p := range e.fr.fn.Params {
			if p.Name() == name {
				return TV{e.fr.vals[p], p.Type()}, nil
			}
		}
	}
	// a local variable of the function that is not live at this point (a
	// return before its declaration): an unconstrained value of its type
	if e.fr != nil {
		if as := e.fr.allocsByName[name]; len(as) > 0 && e.fr.cellAlloc[as[0]] {
			typ := derefType(as[0].Type())
			// one unconstrained value per name and verified function, so that
			// two mentions of the same dead local in a clause agree
			if e.vc.deadLocals == nil {
				e.vc.deadLocals = map[string]Term{}
			}
			t, ok := e.vc.deadLocals[name]
			if !ok {
				t = e.vc.fresh("dead:"+name, e.vc.sortOf(typ))
				e.vc.deadLocals[name] = t
			}
			return TV{t, typ}, nil
		}
	}
	// a let name that is not bound on this path: one unconstrained value
	if e.fr != nil && e.fr.contract != nil {
		for _, cs := range e.fr.contract.CallSites {
			if cs.Let != name {
				continue
			}
			srt, known := e.fr.letSorts[name]
			if !known {
				// bound by a call that is translated later (a return that
				// precedes it in block order): use the sort recorded by an
				// earlier pass, or ask for another pass
				if li, ok := lookupLetInfo(e.vc.fname, name); ok {
					srt, known = li.sort, true
					if e.fr.letTypes == nil {
						e.fr.letTypes = map[string]types.Type{}
						e.fr.letSorts = map[string]Sort{}
					}
					e.fr.letTypes[name], e.fr.letSorts[name] = li.typ, li.sort
				} else if noteLetMiss(e.vc.fname, name) <= 2 {
					// ask for another pass (this one is discarded); a name that
					// stays unbound after two more passes is bound by no call
					e.vc.newHeaps = true
					return TV{}, fmt.Errorf("let name %q not yet bound in this pass", name)
				}
			}
			if !known {
				// no call that binds the name precedes this clause: the call
				// the name was written for is gone (reported like any other
				// name the code no longer provides: a failed binding obligation)
				return TV{}, fmt.Errorf("unknown identifier %q (let name: no call that binds it precedes this clause)", name)
			}
			if e.vc.deadLocals == nil {
				e.vc.deadLocals = map[string]Term{}
			}
			t, have := e.vc.deadLocals["let:"+name]
			if !have {
				t = e.vc.fresh("deadlet:"+name, srt)
				e.vc.deadLocals["let:"+name] = t
			}
			return TV{t, e.fr.letTypes[name]}, nil
		}
	}
	// ghost state
	if g := e.vc.specs.ghost(name); g != nil {
		return TV{e.vc.heap(e.st, g.heapName(), g.sort()), nil}, nil
	}
	// package-level object
	if e.pkg != nil {
		if obj := e.pkg.Scope().Lookup(name); obj != nil {
			return e.object(obj)
		}
	}
	if obj := types.Universe.Lookup(name); obj != nil {
		if c, ok := obj.(*types.Const); ok {
			return e.constant(c)
		}
	}
	return TV{}, fmt.Errorf("unknown identifier %q", name)
}

func (e *Env) object(obj types.Object) (TV, error) {
	switch o := obj.(type) {
	case *types.Const:
		return e.constant(o)
	case *types.Var:
		l := e.vc.globalLoc(o.Pkg().Path(), o.Name(), o.Type())
		return TV{e.vc.load(e.st, l), o.Type()}, nil
	}
	return TV{}, fmt.Errorf("unsupported object %s", obj)
}

func (e *Env) constant(c *types.Const) (TV, error) {
	t, err := e.vc.constTerm(c.Val(), c.Type())
	if err != nil {
		return TV{}, err
	}
	return TV{t, c.Type()}, nil
}

func (vc *VC) constTerm(v constant.Value, typ types.Type) (Term, error) {
	switch v.Kind() {
	case constant.Bool:
		if constant.BoolVal(v) {
			return tTrue, nil
		}
		return tFalse, nil
	case constant.Int:
		if i, ok := constant.Int64Val(v); ok {
			return intLit(i), nil
		}
		return Term{v.ExactString(), SInt}, nil
	case constant.String:
		return vc.strConst(constant.StringVal(v)), nil
	}
	return Term{}, fmt.Errorf("unsupported constant %s", v)
}

func (e *Env) field(x *EField) (TV, error) {
	// package-qualified name?
	if id, ok := x.X.(*EIdent); ok {
		if _, isVar := e.vars[id.Name]; !isVar {
			if e.fr == nil || func() bool { c, _ := e.fr.cellByName(id.Name, e.cellState()); return c == nil }() {
				if p := e.importedPkg(id.Name); p != nil {
					obj := p.Scope().Lookup(x.Name)
					if obj == nil {
						return TV{}, fmt.Errorf("%s.%s not found", id.Name, x.Name)
					}
					return e.object(obj)
				}
			}
		}
	}
	xv, err := e.eval(x.X)
	if err != nil {
		return TV{}, err
	}
	return e.fieldOf(xv, x.Name)
}

func (e *Env) importedPkg(name string) *types.Package {
	if e.pkg == nil {
		return nil
	}
	for _, imp := range e.pkg.Imports() {
		if imp.Name() == name {
			return imp
		}
	}
	// any package known to the program with that name
	for path, pp := range e.vc.prog.PPkg {
		if pp.Types.Name() == name {
			_ = path
			return pp.Types
		}
	}
	var found *types.Package
	for _, p := range e.vc.prog.SSA.AllPackages() {
		if p.Pkg.Name() == name {
			if found == nil || len(p.Pkg.Path()) < len(found.Path()) {
				found = p.Pkg
			}
		}
	}
	return found
}

func (e *Env) fieldOf(xv TV, name string) (TV, error) {
	if xv.Typ == nil {
		return TV{}, fmt.Errorf("field %s of untyped value", name)
	}
	t := xv.Typ
	isPtr := false
	if p, ok := t.Underlying().(*types.Pointer); ok {
		t = p.Elem()
		isPtr = true
	}
	st, ok := t.Underlying().(*types.Struct)
	if !ok {
		return TV{}, fmt.Errorf("field %s of non-struct %s", name, t)
	}
	// find field, including promoted fields through embedded structs (one level of search, recursively)
	for i := 0; i < st.NumFields(); i++ {
		f := st.Field(i)
		if f.Name() == name {
			if isPtr {
				h := e.vc.heap(e.st, fieldHeapName(t, name), arraySort(SInt, e.vc.sortOf(f.Type())))
				e.vc.noteHeapType(fieldHeapName(t, name), f.Type(), "field")
				return TV{sel(h, xv.T), f.Type()}, nil
			}
			return TV{Term{"(" + structSel(t, name, i) + " " + xv.T.S + ")", e.vc.sortOf(f.Type())}, f.Type()}, nil
		}
	}
	for i := 0; i < st.NumFields(); i++ {
		f := st.Field(i)
		if f.Embedded() {
			inner, err := e.fieldOf(xv, f.Name())
			if err != nil {
				continue
			}
			if r, err := e.fieldOf(inner, name); err == nil {
				return r, nil
			}
		}
	}
	return TV{}, fmt.Errorf("no field %s in %s", name, t)
}

func (e *Env) index(xv, iv TV, x Expr) (TV, error) {
	if xv.Typ == nil {
		if strings.HasPrefix(xv.T.Sort, "(Array ") {
			return TV{sel(xv.T, iv.T), nil}, nil
		}
		return TV{}, fmt.Errorf("index of untyped value in %s", exprString(x))
	}
	switch u := xv.Typ.Underlying().(type) {
	case *types.Slice:
		h := e.vc.heap(e.st, elemHeapName(u.Elem()), arraySort(SInt, arraySort(SInt, e.vc.sortOf(u.Elem()))))
		if xv.T.Sort != SSlice || !strings.HasPrefix(h.Sort, "(Array Int (Array ") {
			return TV{}, fmt.Errorf("index of %s: value of slice type %s has sort %s (element heap %s of sort %s)", exprString(x), xv.Typ, xv.T.Sort, h.S, h.Sort)
		}
		e.vc.noteHeapType(elemHeapName(u.Elem()), u.Elem(), "elem")
		if !strings.HasPrefix(string(h.Sort), "(Array Int (Array") {
			return TV{}, fmt.Errorf("internal: element heap %s has sort %s (term %s) in %s", elemHeapName(u.Elem()), h.Sort, h.S, exprString(x))
		}
		return TV{sel(sel(h, sBase(xv.T)), add(sOff(xv.T), iv.T)), u.Elem()}, nil
	case *types.Array:
		return TV{sel(xv.T, iv.T), u.Elem()}, nil
	case *types.Basic:
		if u.Info()&types.IsString != 0 {
			return TV{T(SInt, "(sat %s %s)", xv.T.S, iv.T.S), types.Typ[types.Uint8]}, nil
		}
	case *types.Map:
		mv := e.vc.heap(e.st, mapValName(xv.Typ), arraySort(SInt, arraySort(e.vc.sortOf(u.Key()), e.vc.sortOf(u.Elem()))))
		return TV{sel(sel(mv, xv.T), iv.T), u.Elem()}, nil
	case *types.Pointer:
		if a, ok := u.Elem().Underlying().(*types.Array); ok {
			h := e.vc.heap(e.st, ptrHeapName(u.Elem()), arraySort(SInt, e.vc.sortOf(u.Elem())))
			return TV{sel(sel(h, xv.T), iv.T), a.Elem()}, nil
		}
	}
	return TV{}, fmt.Errorf("cannot index %s in %s", xv.Typ, exprString(x))
}

func (e *Env) call(x *ECall) (TV, error) {
	vc := e.vc
	switch x.Fn {
	case "old":
		if len(x.Args) != 1 {
			return TV{}, fmt.Errorf("old takes one argument")
		}
		if e.old == nil {
			return TV{}, fmt.Errorf("old() not available here")
		}
		n := *e
		n.cst = e.cellState()
		n.st = e.old
		n.inOld = true
		return n.evalOld(x.Args[0])
	case "pre":
		if e.pre == nil {
			return TV{}, fmt.Errorf("pre() only available in loop clauses")
		}
		n := *e
		n.cst = e.pre
		n.st = e.pre
		return n.eval(x.Args[0])
	case "prev":
		// the state at the loop head of the current iteration (transition
		// invariants, checked at back edges only)
		if e.prev == nil {
			return TV{}, fmt.Errorf("prev() only available in loop invariants")
		}
		n := *e
		n.cst = e.prev
		n.st = e.prev
		return n.eval(x.Args[0])
	case "len", "cap":
		v, err := e.eval(x.Args[0])
		if err != nil {
			return TV{}, err
		}
		switch v.T.Sort {
		case SSlice:
			if x.Fn == "len" {
				return TV{sLen(v.T), tInt}, nil
			}
			return TV{sCap(v.T), tInt}, nil
		case SStr:
			return TV{T(SInt, "(slen %s)", v.T.S), tInt}, nil
		}
		if v.Typ != nil {
			if _, ok := v.Typ.Underlying().(*types.Map); ok {
				ml := vc.heap(e.st, mapLenName(v.Typ), arraySort(SInt, SInt))
				return TV{ite(eq(v.T, tZero), tZero, sel(ml, v.T)), tInt}, nil
			}
			if a, ok := v.Typ.Underlying().(*types.Array); ok {
				return TV{intLit(a.Len()), tInt}, nil
			}
		}
		return TV{}, fmt.Errorf("len of unsupported value %s", exprString(x.Args[0]))
	case "min", "max", "abs":
		var args []string
		for _, a := range x.Args {
			v, err := e.eval(a)
			if err != nil {
				return TV{}, err
			}
			args = append(args, v.T.S)
		}
		return TV{T(SInt, "(i%s %s)", x.Fn, strings.Join(args, " ")), tInt}, nil
	case "errvar":
		// errvar(x): the error value x is the value of a package-level error
		// variable (a sentinel); errors.New / fmt.Errorf results are not
		if len(x.Args) != 1 {
			return TV{}, fmt.Errorf("errvar takes one argument")
		}
		v, err := e.eval(x.Args[0])
		if err != nil {
			return TV{}, err
		}
		if v.T.Sort != SInt {
			return TV{}, fmt.Errorf("errvar of non-interface value")
		}
		vc.declare("is_errvar", "(declare-fun is_errvar (Int) Bool)")
		return TV{T(SBool, "(is_errvar %s)", v.T.S), tBool}, nil
	case "deref":
		// deref(p): the value a pointer to a scalar (non-struct, non-array)
		// element points to, in the current state
		if len(x.Args) != 1 {
			return TV{}, fmt.Errorf("deref takes one argument")
		}
		v, err := e.eval(x.Args[0])
		if err != nil {
			return TV{}, err
		}
		if v.Typ == nil {
			return TV{}, fmt.Errorf("deref of untyped value %s", exprString(x.Args[0]))
		}
		pt, ok := v.Typ.Underlying().(*types.Pointer)
		if !ok {
			return TV{}, fmt.Errorf("deref of non-pointer %s", v.Typ)
		}
		switch pt.Elem().Underlying().(type) {
		case *types.Struct, *types.Array:
			return TV{}, fmt.Errorf("deref of pointer to %s: use field access / indexing", pt.Elem())
		}
		h := vc.heap(e.st, ptrHeapName(pt.Elem()), arraySort(SInt, vc.sortOf(pt.Elem())))
		return TV{sel(h, v.T), pt.Elem()}, nil
	case "base":
		v, err := e.eval(x.Args[0])
		if err != nil {
			return TV{}, err
		}
		return TV{sBase(v.T), tInt}, nil
	case "off":
		v, err := e.eval(x.Args[0])
		if err != nil {
			return TV{}, err
		}
		return TV{sOff(v.T), tInt}, nil
	case "has":
		m, err := e.eval(x.Args[0])
		if err != nil {
			return TV{}, err
		}
		k, err := e.eval(x.Args[1])
		if err != nil {
			return TV{}, err
		}
		mt, ok := m.Typ.Underlying().(*types.Map)
		if !ok {
			return TV{}, fmt.Errorf("has() on non-map")
		}
		mh := vc.heap(e.st, mapHasName(m.Typ), arraySort(SInt, arraySort(vc.sortOf(mt.Key()), SBool)))
		return TV{sel(sel(mh, m.T), k.T), tBool}, nil
	case "visited":
		// visited(k): key k has been produced by the map range loop whose
		// clause is being evaluated (the ghost set of keys already iterated)
		if len(x.Args) != 1 {
			return TV{}, fmt.Errorf("visited takes one argument (a map key)")
		}
		k, err := e.eval(x.Args[0])
		if err != nil {
			return TV{}, err
		}
		if e.fr == nil || e.fr.curMapRange == nil {
			// not a clause of the ranging loop itself (a loop nested in it, an
			// "at call" clause): the set of the single map range that is live
			var found []Term
			var names []string
			for c, t := range e.cellState().cells {
				if rk, ok := c.(rangeKey); ok {
					if _, isMap := rk.r.X.Type().Underlying().(*types.Map); isMap {
						found = append(found, t)
						names = append(names, rk.Name())
					}
				}
			}
			if len(found) != 1 {
				return TV{}, fmt.Errorf("visited() outside the clauses of a map range loop needs exactly one live map range (found %d %v)", len(found), names)
			}
			return TV{sel(found[0], k.T), tBool}, nil
		}
		vs, live := e.cellState().cells[rangeKey{e.fr.curMapRange}]
		if !live {
			return TV{}, fmt.Errorf("visited(): the range is not active here")
		}
		return TV{sel(vs, k.T), tBool}, nil
	case "visitedsum", "keysum":
		// keysum(m, f): the sum of f(m[k]) over the keys k of the map m;
		// visitedsum(f): the same sum over the keys the map range loop whose
		// clause is being evaluated has produced so far. f is a ufunc of one
		// reference argument with an integer result.
		return e.mapSum(x)
	case "visitedcount":
		// visitedcount(): number of keys the map range loop whose clause is
		// being evaluated has produced so far
		if e.fr == nil || e.fr.curMapRange == nil {
			return TV{}, fmt.Errorf("visitedcount() is only available in the clauses of a loop that ranges over a map")
		}
		vn, live := e.cellState().cells[rangeCountKey{rangeKey{e.fr.curMapRange}}]
		if !live {
			return TV{}, fmt.Errorf("visitedcount(): the range is not active here")
		}
		return TV{vn, tInt}, nil
	case "fresh":
		// fresh(x): x was allocated during the call/loop (not below the old watermark)
		v, err := e.eval(x.Args[0])
		if err != nil {
			return TV{}, err
		}
		if e.old == nil {
			return TV{}, fmt.Errorf("fresh() needs an old state")
		}
		ref := v.T
		if ref.Sort == SSlice {
			ref = sBase(ref)
		}
		return TV{and(le(e.old.wm, ref), lt(ref, e.st.wm)), tBool}, nil
	case "isa":
		// isa(x, "T"): the object x refers to was allocated with type T
		// (struct type for pointers, map / slice / channel type otherwise)
		if len(x.Args) != 2 {
			return TV{}, fmt.Errorf("isa takes a reference and a type name")
		}
		v, err := e.eval(x.Args[0])
		if err != nil {
			return TV{}, err
		}
		lit, ok := x.Args[1].(*EStr)
		if !ok {
			return TV{}, fmt.Errorf("isa: second argument must be a type name string")
		}
		nerr := len(vc.errs)
		t, _ := vc.lemmaParamType(e, lit.V)
		if len(vc.errs) > nerr || t == nil {
			vc.errs = vc.errs[:nerr]
			return TV{}, fmt.Errorf("isa: unknown type %s", lit.V)
		}
		ref := v.T
		if ref.Sort == SSlice {
			ref = sBase(ref)
		}
		vc.declare("rtype", "(declare-fun rtype (Int) Int)")
		return TV{eq(T(SInt, "(rtype %s)", ref.S), vc.typeTag(t)), tBool}, nil
	case "loopfresh":
		// loopfresh(x): x was allocated since the loop was entered (loop clauses)
		if len(x.Args) != 1 {
			return TV{}, fmt.Errorf("loopfresh takes one argument")
		}
		if e.pre == nil {
			return TV{}, fmt.Errorf("loopfresh() only available in loop clauses")
		}
		v, err := e.eval(x.Args[0])
		if err != nil {
			return TV{}, err
		}
		ref := v.T
		if ref.Sort == SSlice {
			ref = sBase(ref)
		}
		return TV{and(le(e.pre.wm, ref), lt(ref, e.st.wm)), tBool}, nil
	case "unboxptr":
		// unboxptr(x, "T"): the *T stored in interface value x
		if len(x.Args) != 2 {
			return TV{}, fmt.Errorf("unboxptr takes an interface value and a type name")
		}
		v, err := e.eval(x.Args[0])
		if err != nil {
			return TV{}, err
		}
		lit, ok := x.Args[1].(*EStr)
		if !ok || e.pkg == nil {
			return TV{}, fmt.Errorf("unboxptr: second argument must be a type name string")
		}
		obj := e.pkg.Scope().Lookup(lit.V)
		if k := strings.LastIndex(lit.V, "."); k > 0 && obj == nil {
			// "pkg.T": a type of a directly imported package (by package name)
			for _, imp := range e.pkg.Imports() {
				if imp.Name() == lit.V[:k] {
					obj = imp.Scope().Lookup(lit.V[k+1:])
					break
				}
			}
		}
		tn, ok := obj.(*types.TypeName)
		if !ok {
			return TV{}, fmt.Errorf("unboxptr: unknown type %s", lit.V)
		}
		pt := types.NewPointer(tn.Type())
		key := typeKey(pt)
		bx, ub := quote("box:"+key), quote("unbox:"+key)
		vc.declare("box:"+key, fmt.Sprintf("(declare-fun %s (Int) Int)\n(declare-fun %s (Int) Int)", bx, ub))
		return TV{T(SInt, "(%s %s)", ub, v.T.S), pt}, nil
	case "box":
		// box(x): the interface value that holds x (of x's static type); the
		// same term a conversion of x to an interface type produces
		if len(x.Args) != 1 {
			return TV{}, fmt.Errorf("box takes one argument")
		}
		v, err := e.eval(x.Args[0])
		if err != nil {
			return TV{}, err
		}
		if v.Typ == nil {
			return TV{}, fmt.Errorf("box of untyped value %s", exprString(x.Args[0]))
		}
		if _, isIface := v.Typ.Underlying().(*types.Interface); isIface {
			return v, nil
		}
		key := typeKey(v.Typ)
		bx, ub := quote("box:"+key), quote("unbox:"+key)
		srt := vc.sortOf(v.Typ)
		vc.declare("box:"+key, fmt.Sprintf("(declare-fun %s (%s) Int)\n(declare-fun %s (Int) %s)", bx, srt, ub, srt))
		return TV{T(SInt, "(%s %s)", bx, v.T.S), types.NewInterfaceType(nil, nil)}, nil
	case "unbox", "isboxed":
		// unbox(x, "T"): the T value stored in interface value x (meaningful
		// only when isboxed(x, "T"): the dynamic type of x is T). T is a
		// universe type name (string, int, uint8, ...) or a named type of the
		// contract's package.
		if len(x.Args) != 2 {
			return TV{}, fmt.Errorf("%s takes an interface value and a type name", x.Fn)
		}
		v, err := e.eval(x.Args[0])
		if err != nil {
			return TV{}, err
		}
		lit, ok := x.Args[1].(*EStr)
		if !ok {
			return TV{}, fmt.Errorf("%s: second argument must be a type name string", x.Fn)
		}
		var bt types.Type
		if obj, ok := types.Universe.Lookup(lit.V).(*types.TypeName); ok {
			bt = obj.Type()
		} else if e.pkg != nil {
			if tn, ok := e.pkg.Scope().Lookup(lit.V).(*types.TypeName); ok {
				bt = tn.Type()
			}
		}
		if bt == nil {
			return TV{}, fmt.Errorf("%s: unknown type %s", x.Fn, lit.V)
		}
		if v.T.Sort != SInt {
			return TV{}, fmt.Errorf("%s: first argument is not an interface value", x.Fn)
		}
		if x.Fn == "isboxed" {
			return TV{eq(T(SInt, "(typeof %s)", v.T.S), vc.typeTag(bt)), tBool}, nil
		}
		key := typeKey(bt)
		srt := vc.sortOf(bt)
		bx, ub := quote("box:"+key), quote("unbox:"+key)
		vc.declare("box:"+key, fmt.Sprintf("(declare-fun %s (%s) Int)\n(declare-fun %s (Int) %s)", bx, srt, ub, srt))
		return TV{T(srt, "(%s %s)", ub, v.T.S), bt}, nil
	case "typeof":
		v, err := e.eval(x.Args[0])
		if err != nil {
			return TV{}, err
		}
		return TV{T(SInt, "(typeof %s)", v.T.S), tInt}, nil
	}
	// macros and recursive spec functions
	if m := vc.specs.macro(e.pkgKey, x.Fn); m != nil {
		if len(x.Args) != len(m.Params) {
			return TV{}, fmt.Errorf("%s: %d arguments, want %d", x.Fn, len(x.Args), len(m.Params))
		}
		if e.depth > 40 {
			return TV{}, fmt.Errorf("macro expansion too deep at %s", x.Fn)
		}
		var args []TV
		for _, a := range x.Args {
			v, err := e.eval(a)
			if err != nil {
				return TV{}, err
			}
			args = append(args, v)
		}
		if m.UF {
			return e.ufCall(m, args)
		}
		if m.Rec {
			return e.recCall(m, args)
		}
		vars := map[string]TV{}
		for i, p := range m.Params {
			vars[p] = args[i]
		}
		n := *e
		n.vars = vars
		n.fr = nil
		n.depth = e.depth + 1
		if mp := vc.specs.macroPkg(e.pkgKey, x.Fn); mp != "" && mp != e.pkgKey {
			n.pkgKey = mp
			if pp := vc.prog.PPkg[modulePrefix+mp]; pp != nil {
				n.pkg = pp.Types
			}
		}
		r, err := n.eval(m.Body)
		if err != nil {
			return TV{}, fmt.Errorf("in %s: %v", x.Fn, err)
		}
		return r, nil
	}
	// a Go function of the package (or pkg.F)
	if fn := e.lookupGoFunc(x.Fn); fn != nil {
		var args []TV
		for _, a := range x.Args {
			v, err := e.eval(a)
			if err != nil {
				return TV{}, err
			}
			args = append(args, v)
		}
		return e.goCall(fn, args)
	}
	return TV{}, fmt.Errorf("unknown function %q in contract", x.Fn)
}

// evalOld evaluates an expression entirely in the old state; identifiers that
// name parameters keep their entry values (they are entry values already).
func (e *Env) evalOld(x Expr) (TV, error) {
	return e.eval(x)
}

// recCall emits an uninterpreted function application and one unfolding of
// its defining equation at these arguments.
func (e *Env) recCall(m *Macro, args []TV) (TV, error) {
	vc := e.vc
	fname := quote("rec:" + e.vc.specs.macroPkg(e.pkgKey, m.Name) + "." + m.Name)
	rsort := SInt
	if m.RType == "bool" {
		rsort = SBool
	}
	// A recursive spec function may read the heap; its application carries the
	// current versions of the heaps its body reads as extra arguments, so that
	// applications in different heap states are different terms.
	if vc.recHeaps == nil {
		vc.recHeaps = map[string][]string{}
	}
	if _, known := vc.recHeaps[fname]; !known {
		vc.recHeaps[fname] = nil // breaks the recursion of the probing pass
		saved := vc.heapReads
		vc.heapReads = map[string]Sort{}
		vars := map[string]TV{}
		for i, p := range m.Params {
			vars[p] = args[i]
		}
		n := *e
		n.vars, n.fr, n.noUnfold, n.depth = vars, nil, true, e.depth+1
		savedLines := len(vc.lines)
		_, perr := n.eval(m.Body)
		vc.lines = vc.lines[:savedLines]
		var names []string
		for h := range vc.heapReads {
			names = append(names, h)
		}
		sort.Strings(names)
		vc.heapReads = saved
		if perr != nil {
			delete(vc.recHeaps, fname)
			return TV{}, fmt.Errorf("in %s: %v", m.Name, perr)
		}
		vc.recHeaps[fname] = names
	}
	var asorts, astr []string
	for _, h := range vc.recHeaps[fname] {
		info := vc.heapInfo[h]
		if info == nil {
			continue
		}
		ht := vc.heap(e.st, h, info.Sort)
		asorts = append(asorts, ht.Sort)
		astr = append(astr, ht.S)
	}
	for _, a := range args {
		asorts = append(asorts, a.T.Sort)
		astr = append(astr, a.T.S)
	}
	vc.declare("rec:"+fname+":"+strings.Join(asorts, ","), fmt.Sprintf("(declare-fun %s (%s) %s)", fname, strings.Join(asorts, " "), rsort))
	app := Term{"(" + fname + " " + strings.Join(astr, " ") + ")", rsort}
	if len(astr) == 0 {
		app = Term{fname, rsort}
	}
	// one unfolding of the defining equation at these arguments ("fuel 1")
	if !e.noUnfold && (!e.bound || (e.unfolds != nil && !m.Def)) {
		key := "unfold:" + app.S
		if e.bound || !vc.declared[key] {
			vars := map[string]TV{}
			for i, p := range m.Params {
				vars[p] = args[i]
			}
			n := *e
			n.vars = vars
			n.fr = nil
			n.noUnfold = true
			n.depth = e.depth + 1
			body, err := n.eval(m.Body)
			if err != nil {
				return TV{}, fmt.Errorf("in %s: %v", m.Name, err)
			}
			if body.T.Sort != rsort {
				return TV{}, fmt.Errorf("%s: body has sort %s, declared %s", m.Name, body.T.Sort, rsort)
			}
			if e.bound {
				*e.unfolds = append(*e.unfolds, unfoldT{app: app, body: body.T})
			} else {
				vc.declared[key] = true
				vc.lines = append(vc.lines, "(assert "+eq(app, body.T).S+")")
			}
		}
	}
	var rtyp types.Type
	if m.RType == "bool" {
		rtyp = tBool
	} else {
		rtyp = tInt
	}
	return TV{app, rtyp}, nil
}

// mapSum evaluates keysum(m, f) and visitedsum(f). The sum over a finite key
// set S of a map with value array mv is the uninterpreted function msum(S, mv)
// axiomatised by msum({}, mv) = 0 and, for k not in S,
// msum(S + {k}, mv) = msum(S, mv) + f(mv[k]).
func (e *Env) mapSum(x *ECall) (TV, error) {
	vc := e.vc
	var mt types.Type
	var set, vals Term
	var fexpr Expr
	if x.Fn == "keysum" {
		if len(x.Args) != 2 {
			return TV{}, fmt.Errorf("keysum takes a map and the name of a ufunc")
		}
		m, err := e.eval(x.Args[0])
		if err != nil {
			return TV{}, err
		}
		if m.Typ == nil {
			return TV{}, fmt.Errorf("keysum: first argument is not a map")
		}
		mt = m.Typ
		u, ok := mt.Underlying().(*types.Map)
		if !ok {
			return TV{}, fmt.Errorf("keysum: first argument is not a map")
		}
		ks, vs := vc.sortOf(u.Key()), vc.sortOf(u.Elem())
		mh := vc.heap(e.st, mapHasName(mt), arraySort(SInt, arraySort(ks, SBool)))
		mv := vc.heap(e.st, mapValName(mt), arraySort(SInt, arraySort(ks, vs)))
		set = ite(eq(m.T, tZero), Term{fmt.Sprintf("((as const %s) false)", arraySort(ks, SBool)), arraySort(ks, SBool)}, sel(mh, m.T))
		vals = sel(mv, m.T)
		fexpr = x.Args[1]
	} else {
		if len(x.Args) != 1 {
			return TV{}, fmt.Errorf("visitedsum takes the name of a ufunc")
		}
		if e.fr == nil || e.fr.curMapRange == nil {
			return TV{}, fmt.Errorf("visitedsum() is only available in the clauses of a loop that ranges over a map")
		}
		r := e.fr.curMapRange
		mt = r.X.Type()
		u := mt.Underlying().(*types.Map)
		ks, vs := vc.sortOf(u.Key()), vc.sortOf(u.Elem())
		var live bool
		set, live = e.cellState().cells[rangeKey{r}]
		if !live {
			return TV{}, fmt.Errorf("visitedsum(): the range is not active here")
		}
		mv := vc.heap(e.st, mapValName(mt), arraySort(SInt, arraySort(ks, vs)))
		vals = sel(mv, e.fr.val(r.X))
		fexpr = x.Args[0]
	}
	id, ok := fexpr.(*EIdent)
	if !ok {
		return TV{}, fmt.Errorf("%s: the function argument must be the name of a ufunc", x.Fn)
	}
	m := vc.specs.macro(e.pkgKey, id.Name)
	if m == nil || !m.UF || len(m.Params) != 1 || (m.RType != "int" && m.RType != "") {
		return TV{}, fmt.Errorf("%s: %s is not a ufunc of one argument with an integer result", x.Fn, id.Name)
	}
	u := mt.Underlying().(*types.Map)
	ks, vs := vc.sortOf(u.Key()), vc.sortOf(u.Elem())
	if vs != SInt {
		return TV{}, fmt.Errorf("%s: map values must be references or integers", x.Fn)
	}
	uf := quote("uf:" + m.Name)
	vc.declare("uf:"+uf, fmt.Sprintf("(declare-fun %s (%s) %s)", uf, SInt, SInt))
	ms := quote("msum:" + m.Name + ":" + ks)
	setS, valS := arraySort(ks, SBool), arraySort(ks, vs)
	vc.declare("msum:"+ms, fmt.Sprintf("(declare-fun %s (%s %s) Int)\n"+
		"(assert (forall ((mv %s)) (! (= (%s ((as const %s) false) mv) 0) :pattern ((%s ((as const %s) false) mv)))))\n"+
		"(assert (forall ((ss %s) (mv %s) (kk %s)) (! (=> (not (select ss kk)) (= (%s (store ss kk true) mv) (+ (%s ss mv) (%s (select mv kk))))) :pattern ((%s (store ss kk true) mv)))))",
		ms, setS, valS,
		valS, ms, setS, ms, setS,
		setS, valS, ks, ms, ms, uf, ms))
	return TV{T(SInt, "(%s %s %s)", ms, set.S, vals.S), tInt}, nil
}

// quantVarType is the Go type of a quantifier's bound variable: int, string,
// or *T for a named type T of the contract's package (the variable then
// ranges over all references; fields of the object can be read).
func (e *Env) quantVarType(q *EQuant) (types.Type, error) {
	switch {
	case q.VarTyp == "string":
		return types.Typ[types.String], nil
	case strings.HasPrefix(q.VarTyp, "*"):
		if e.pkg == nil {
			return nil, fmt.Errorf("quantifier over %s: no package in scope", q.VarTyp)
		}
		tn, ok := e.pkg.Scope().Lookup(q.VarTyp[1:]).(*types.TypeName)
		if !ok {
			return nil, fmt.Errorf("quantifier over %s: unknown type", q.VarTyp)
		}
		return types.NewPointer(tn.Type()), nil
	}
	return tInt, nil
}

// unfoldT is the defining equation of a recursive spec function at a term that
// mentions bound variables; it is instantiated together with the quantifier.
type unfoldT struct {
	app, body Term
}

// ufCall applies an uninterpreted specification function.
func (e *Env) ufCall(m *Macro, args []TV) (TV, error) {
	vc := e.vc
	fname := quote("uf:" + m.Name)
	rsort, rtyp := SInt, types.Type(tInt)
	switch m.RType {
	case "bool":
		rsort, rtyp = SBool, tBool
	case "string":
		rsort, rtyp = SStr, types.Typ[types.String]
	case "int", "":
	default:
		// a Go type such as time.Time
		nerr := len(vc.errs)
		t, s := vc.lemmaParamType(e, m.RType)
		if len(vc.errs) > nerr {
			vc.errs = vc.errs[:nerr]
			return TV{}, fmt.Errorf("ufunc %s: unknown result type %s", m.Name, m.RType)
		}
		rsort, rtyp = s, t
	}
	var asorts, astr []string
	for _, a := range args {
		asorts = append(asorts, a.T.Sort)
		astr = append(astr, a.T.S)
	}
	vc.declare("uf:"+fname, fmt.Sprintf("(declare-fun %s (%s) %s)", fname, strings.Join(asorts, " "), rsort))
	app := Term{"(" + fname + " " + strings.Join(astr, " ") + ")", rsort}
	if len(args) == 0 {
		app = Term{fname, rsort}
	}
	return TV{app, rtyp}, nil
}

func exprString(x Expr) string {
	switch x := x.(type) {
	case *EIdent:
		return x.Name
	case *EInt:
		return x.V
	case *EBool:
		return fmt.Sprint(x.V)
	case *EStr:
		return fmt.Sprintf("%q", x.V)
	case *ENil:
		return "nil"
	case *EUn:
		return x.Op + exprString(x.X)
	case *EBin:
		return "(" + exprString(x.X) + " " + x.Op + " " + exprString(x.Y) + ")"
	case *EField:
		return exprString(x.X) + "." + x.Name
	case *EIndex:
		return exprString(x.X) + "[" + exprString(x.I) + "]"
	case *ESlice:
		if x.Lo == nil {
			return exprString(x.X) + "[*]"
		}
		hi := ""
		if x.Hi != nil {
			hi = exprString(x.Hi)
		}
		return exprString(x.X) + "[" + exprString(x.Lo) + ":" + hi + "]"
	case *ECall:
		var as []string
		for _, a := range x.Args {
			as = append(as, exprString(a))
		}
		return x.Fn + "(" + strings.Join(as, ", ") + ")"
	case *EQuant:
		q := "exists"
		if x.Forall {
			q = "forall"
		}
		vn := x.Var
		if x.VarTyp != "" {
			vn += " " + x.VarTyp
		}
		if x.Lo != nil {
			return fmt.Sprintf("%s %s in %s..%s :: %s", q, vn, exprString(x.Lo), exprString(x.Hi), exprString(x.Body))
		}
		return fmt.Sprintf("%s %s :: %s", q, vn, exprString(x.Body))
	case *ECond:
		return "(" + exprString(x.C) + " ? " + exprString(x.A) + " : " + exprString(x.B) + ")"
	}
	return fmt.Sprintf("%v", x)
}

// isCapturedCell reports whether a cell is a variable shared between a
// function and its closures: a free variable of the closure being verified, or
// a local of the caller that a closure captures.
func isCapturedCell(cell ssa.Value) bool {
	switch c := cell.(type) {
	case *ssa.FreeVar:
		return true
	case *ssa.Alloc:
		return isCapturedAtAll(c)
	}
	return false
}

// cellByName finds the live local variable cell with the given source name.
func (fr *Frame) cellByName(name string, st *State) (ssa.Value, types.Type) {
	var best *ssa.Alloc
	if name == "rangeindex" && fr.curRangeIdx != nil {
		if _, ok := st.cells[fr.curRangeIdx]; ok {
			return fr.curRangeIdx, fr.curRangeIdx.Type().(*types.Pointer).Elem()
		}
	}
	for _, a := range fr.allocsByName[name] {
		if _, ok := st.cells[a]; !ok {
			continue
		}
		if best == nil || a.Pos() > best.Pos() {
			best = a
		}
	}
	if best != nil {
		return best, best.Type().(*types.Pointer).Elem()
	}
	for _, fv := range fr.fn.FreeVars {
		if fv.Name() == name {
			if _, ok := st.cells[fv]; ok {
				return fv, fv.Type().(*types.Pointer).Elem()
			}
		}
	}
	return nil, nil
}

// lookupGoFunc resolves "F" (in the clause's package) or "pkg.F" to a
// function of the loaded program.
func (e *Env) lookupGoFunc(name string) *ssa.Function {
	pkg := e.pkg
	fname := name
	if k := strings.LastIndex(name, "."); k >= 0 {
		pkg = e.importedPkg(name[:k])
		fname = name[k+1:]
	}
	if pkg == nil {
		return nil
	}
	sp := e.vc.prog.SSA.Package(pkg)
	if sp == nil {
		return nil
	}
	return sp.Func(fname)
}

// letInfo remembers sort and type of the names bound by "at call ... let"
// across the passes over one function.
type letInfo struct {
	sort Sort
	typ  types.Type
}

var letInfoMu sync.Mutex
var letInfoCache = map[string]letInfo{}

func lookupLetInfo(fname, name string) (letInfo, bool) {
	letInfoMu.Lock()
	defer letInfoMu.Unlock()
	li, ok := letInfoCache[fname+"\x00"+name]
	return li, ok
}

var letMisses = map[string]int{}

// noteLetMiss counts the passes in which a let name was used before any call
// bound it.
func noteLetMiss(fname, name string) int {
	letInfoMu.Lock()
	defer letInfoMu.Unlock()
	letMisses[fname+"\x00"+name]++
	return letMisses[fname+"\x00"+name]
}

func recordLetInfo(fname, name string, srt Sort, typ types.Type) {
	letInfoMu.Lock()
	defer letInfoMu.Unlock()
	letInfoCache[fname+"\x00"+name] = letInfo{srt, typ}
}
