package main

// Package-level maps that are initialised by a composite literal of constants
// and never written anywhere in their package keep their initial contents.
// The facts are derived from the package initialiser's SSA (not from a
// contract) and asserted about the entry heap.

import (
	"fmt"
	"go/token"
	"go/types"
	"strings"

	"golang.org/x/tools/go/ssa"
)

type constMapEntry struct {
	key, val *ssa.Const
}

// constMapInit returns the entries of a package-level map variable when it is
// provably constant: stored once in init from a MakeMap that is updated only
// with constant keys and values, and never stored to or updated elsewhere in
// the package.
func constMapInit(g *ssa.Global) ([]constMapEntry, bool) {
	if _, ok := derefType(g.Type()).Underlying().(*types.Map); !ok {
		return nil, false
	}
	pkg := g.Pkg
	initFn := pkg.Func("init")
	if initFn == nil {
		return nil, false
	}
	var mk *ssa.MakeMap
	var entries []constMapEntry
	var visit func(f *ssa.Function) bool
	visit = func(f *ssa.Function) bool {
		for _, b := range f.Blocks {
			for _, in := range b.Instrs {
				switch in := in.(type) {
				case *ssa.Store:
					if in.Addr == ssa.Value(g) {
						m := throughLocal(in.Val)
						if m == nil || f != initFn || mk != nil {
							return false
						}
						mk = m
					}
				case *ssa.MapUpdate:
					if isLoadOf(in.Map, g) {
						return false
					}
				case *ssa.Call:
					if bi, ok := in.Call.Value.(*ssa.Builtin); ok && (bi.Name() == "delete" || bi.Name() == "clear") {
						if len(in.Call.Args) > 0 && isLoadOf(in.Call.Args[0], g) {
							return false
						}
					}
				}
			}
		}
		for _, an := range f.AnonFuncs {
			if !visit(an) {
				return false
			}
		}
		return true
	}
	for _, m := range pkg.Members {
		if f, ok := m.(*ssa.Function); ok {
			if !visit(f) {
				return nil, false
			}
		}
		if t, ok := m.(*ssa.Type); ok {
			for _, tt := range []types.Type{t.Type(), types.NewPointer(t.Type())} {
				ms := pkg.Prog.MethodSets.MethodSet(tt)
				for i := 0; i < ms.Len(); i++ {
					if fn := pkg.Prog.MethodValue(ms.At(i)); fn != nil && fn.Pkg == pkg {
						if !visit(fn) {
							return nil, false
						}
					}
				}
			}
		}
	}
	if mk == nil {
		return nil, false
	}
	// the literal's updates: every use of mk must be a constant MapUpdate or
	// the store to the global
	if mk.Referrers() == nil {
		return nil, false
	}
	for _, r := range *mk.Referrers() {
		switch r := r.(type) {
		case *ssa.MapUpdate:
			k, ok1 := r.Key.(*ssa.Const)
			v, ok2 := r.Value.(*ssa.Const)
			if !ok1 || !ok2 || r.Map != ssa.Value(mk) {
				return nil, false
			}
			entries = append(entries, constMapEntry{k, v})
		case *ssa.Store:
			if r.Addr != ssa.Value(g) {
				// naive SSA form routes composite literals through a local
				if a, ok := r.Addr.(*ssa.Alloc); !ok || !onlyLoadedInto(a, g) {
					return nil, false
				}
			}
		case *ssa.DebugRef:
		default:
			return nil, false
		}
	}
	return entries, true
}

// throughLocal resolves "t = *local" where the local was stored exactly one
// MakeMap (the shape of composite literals in naive SSA form).
func throughLocal(v ssa.Value) *ssa.MakeMap {
	if m, ok := v.(*ssa.MakeMap); ok {
		return m
	}
	u, ok := v.(*ssa.UnOp)
	if !ok || u.Op != token.MUL {
		return nil
	}
	a, ok := u.X.(*ssa.Alloc)
	if !ok || a.Referrers() == nil {
		return nil
	}
	var mk *ssa.MakeMap
	for _, r := range *a.Referrers() {
		if s, ok := r.(*ssa.Store); ok && s.Addr == ssa.Value(a) {
			m, ok := s.Val.(*ssa.MakeMap)
			if !ok || mk != nil {
				return nil
			}
			mk = m
		}
	}
	return mk
}

// onlyLoadedInto reports whether the local is only stored to and loaded, and
// every load is stored into g.
func onlyLoadedInto(a *ssa.Alloc, g *ssa.Global) bool {
	if a.Referrers() == nil {
		return false
	}
	for _, r := range *a.Referrers() {
		switch r := r.(type) {
		case *ssa.Store:
			if r.Addr != ssa.Value(a) {
				return false
			}
		case *ssa.UnOp:
			if r.Referrers() == nil {
				return false
			}
			for _, rr := range *r.Referrers() {
				if s, ok := rr.(*ssa.Store); !ok || s.Addr != ssa.Value(g) {
					if _, dbg := rr.(*ssa.DebugRef); !dbg {
						return false
					}
				}
			}
		case *ssa.DebugRef:
		default:
			return false
		}
	}
	return true
}

func isLoadOf(v ssa.Value, g *ssa.Global) bool {
	u, ok := v.(*ssa.UnOp)
	return ok && u.Op == token.MUL && u.X == ssa.Value(g)
}

// constMapFacts asserts the contents of constant package-level maps that the
// function's heaps mention.
func (vc *VC) constMapFacts(st *State) {
	for _, n := range vc.sortedHeapNames() {
		if !strings.HasPrefix(n, "|G:") {
			continue
		}
		name := strings.TrimSuffix(strings.TrimPrefix(n, "|G:"), "|")
		k := strings.LastIndex(name, ".")
		if k < 0 {
			continue
		}
		pkgShort, v := name[:k], name[k+1:]
		var g *ssa.Global
		for _, sp := range vc.prog.SSA.AllPackages() {
			if shortPkg(sp.Pkg.Path()) == pkgShort {
				if gg, ok := sp.Members[v].(*ssa.Global); ok {
					g = gg
				}
			}
		}
		if g == nil {
			continue
		}
		entries, ok := constMapInit(g)
		if !ok {
			continue
		}
		mt := derefType(g.Type())
		mu := mt.Underlying().(*types.Map)
		ks, vs := vc.sortOf(mu.Key()), vc.sortOf(mu.Elem())
		gt := st.heaps[n]
		mh := vc.heap(st, mapHasName(mt), arraySort(SInt, arraySort(ks, SBool)))
		mv := vc.heap(st, mapValName(mt), arraySort(SInt, arraySort(ks, vs)))
		ml := vc.heap(st, mapLenName(mt), arraySort(SInt, SInt))
		fr := &Frame{vc: vc}
		var facts []string
		facts = append(facts, fmt.Sprintf("(assert (> %s 0))", gt.S))
		var keyTerms []string
		for _, e := range entries {
			kt := fr.constVal(e.key)
			vt := fr.constVal(e.val)
			keyTerms = append(keyTerms, kt.S)
			facts = append(facts, fmt.Sprintf("(assert (select (select %s %s) %s))", mh.S, gt.S, kt.S))
			facts = append(facts, fmt.Sprintf("(assert (= (select (select %s %s) %s) %s))", mv.S, gt.S, kt.S, vt.S))
		}
		if len(keyTerms) > 0 {
			var eqs []string
			for _, kt := range keyTerms {
				eqs = append(eqs, fmt.Sprintf("(= ck %s)", kt))
			}
			facts = append(facts, fmt.Sprintf("(assert (forall ((ck %s)) (! (=> (select (select %s %s) ck) (or %s)) :pattern ((select (select %s %s) ck)))))", ks, mh.S, gt.S, strings.Join(eqs, " "), mh.S, gt.S))
		}
		facts = append(facts, fmt.Sprintf("(assert (= (select %s %s) %d))", ml.S, gt.S, len(entries)))
		vc.declare("constmap:"+n, strings.Join(facts, "\n"))
		vc.assumes["package-level map "+name+" is initialised by a constant literal and never written in its package (checked on the SSA): its contents are taken from the initialiser"] = true
	}
}
