package main

import (
	"fmt"
	"go/ast"
	"go/token"
	"go/types"
	"os"
	"sort"
	"strings"

	"golang.org/x/tools/go/packages"
	"golang.org/x/tools/go/ssa"
	"golang.org/x/tools/go/ssa/ssautil"
)

// Program is the loaded repository: typed syntax plus naive-form SSA.
type Program struct {
	Fset  *token.FileSet
	Pkgs  []*packages.Package
	SSA   *ssa.Program
	ByPkg map[string]*ssa.Package // import path -> ssa package
	PPkg  map[string]*packages.Package
	// Funcs indexes every function (including methods and anonymous functions)
	// of the requested packages by its govc name.
	Funcs map[string]*ssa.Function
}

const modulePrefix = "github.com/mutagen-io/mutagen/"

// loadProgram loads the given package patterns (relative to repo, e.g.
// "./pkg/multiplexing/ring") with the verif build tag.
func loadProgram(repo string, patterns []string) (*Program, error) {
	fset := token.NewFileSet()
	// the go command is looked up through this process's PATH
	os.Setenv("PATH", "/opt/veriftools/go1.26.8/bin:"+os.Getenv("PATH"))
	cfg := &packages.Config{
		Mode:       packages.LoadAllSyntax,
		Dir:        repo,
		Fset:       fset,
		BuildFlags: []string{"-tags=verif"},
		Env:        append(os.Environ(), "GOFLAGS=-mod=mod", "GOPROXY=off", "GOTOOLCHAIN=local", "GOSUMDB=off", "PATH=/opt/veriftools/go1.26.8/bin:"+os.Getenv("PATH")),
	}
	pkgs, err := packages.Load(cfg, patterns...)
	if err != nil {
		return nil, err
	}
	var errs []string
	packages.Visit(pkgs, nil, func(p *packages.Package) {
		for _, e := range p.Errors {
			errs = append(errs, e.Error())
		}
	})
	if len(errs) > 0 {
		return nil, fmt.Errorf("load errors:\n%s", strings.Join(errs, "\n"))
	}
	prog, spkgs := ssautil.AllPackages(pkgs, ssa.NaiveForm|ssa.GlobalDebug|ssa.InstantiateGenerics)
	prog.Build()
	p := &Program{Fset: fset, Pkgs: pkgs, SSA: prog, ByPkg: map[string]*ssa.Package{}, PPkg: map[string]*packages.Package{}, Funcs: map[string]*ssa.Function{}}
	for i, sp := range spkgs {
		if sp == nil {
			continue
		}
		p.ByPkg[pkgs[i].PkgPath] = sp
		p.PPkg[pkgs[i].PkgPath] = pkgs[i]
	}
	// Also index dependency packages that are part of the repository, so
	// contracts of callees in other packages can be bound.
	packages.Visit(pkgs, nil, func(pp *packages.Package) {
		if _, ok := p.PPkg[pp.PkgPath]; ok {
			return
		}
		if strings.HasPrefix(pp.PkgPath, modulePrefix) {
			if sp := prog.Package(pp.Types); sp != nil {
				p.ByPkg[pp.PkgPath] = sp
				p.PPkg[pp.PkgPath] = pp
			}
		}
	})
	for _, sp := range p.ByPkg {
		p.indexPackage(sp)
	}
	return p, nil
}

// shortPkg strips the module prefix from an import path.
func shortPkg(path string) string {
	return strings.TrimPrefix(path, modulePrefix)
}

func (p *Program) indexPackage(sp *ssa.Package) {
	var add func(f *ssa.Function)
	add = func(f *ssa.Function) {
		if f == nil {
			return
		}
		name := funcName(f)
		if _, dup := p.Funcs[name]; !dup {
			p.Funcs[name] = f
		}
		for _, an := range f.AnonFuncs {
			add(an)
		}
	}
	for _, m := range sp.Members {
		switch m := m.(type) {
		case *ssa.Function:
			add(m)
		case *ssa.Type:
			for _, t := range []types.Type{m.Type(), types.NewPointer(m.Type())} {
				ms := p.SSA.MethodSets.MethodSet(t)
				for i := 0; i < ms.Len(); i++ {
					fn := p.SSA.MethodValue(ms.At(i))
					if fn != nil && fn.Synthetic == "" {
						add(fn)
					}
				}
			}
		}
	}
}

// funcName gives the govc name of a function: "<short pkg path>.Name",
// "<short pkg path>.(*T).Name", "<short pkg path>.(T).Name"; anonymous
// functions are "<parent>$N".
func funcName(f *ssa.Function) string {
	if f.Parent() != nil {
		// ssa names closures Parent$N already.
		return funcName(f.Parent()) + f.Name()[strings.LastIndex(f.Name(), "$"):]
	}
	pkg := ""
	if f.Pkg != nil {
		pkg = shortPkg(f.Pkg.Pkg.Path())
	} else if f.Object() != nil && f.Object().Pkg() != nil {
		pkg = shortPkg(f.Object().Pkg().Path())
	}
	if recv := f.Signature.Recv(); recv != nil {
		t := recv.Type()
		ptr := false
		if pt, ok := t.(*types.Pointer); ok {
			ptr = true
			t = pt.Elem()
		}
		tn := "?"
		if n, ok := t.(*types.Named); ok {
			tn = n.Obj().Name()
		}
		if ptr {
			return fmt.Sprintf("%s.(*%s).%s", pkg, tn, f.Name())
		}
		return fmt.Sprintf("%s.(%s).%s", pkg, tn, f.Name())
	}
	return pkg + "." + f.Name()
}

func (p *Program) sortedFuncNames() []string {
	var names []string
	for n := range p.Funcs {
		names = append(names, n)
	}
	sort.Strings(names)
	return names
}

// loopOrdinals maps, for a function with syntax, each for/range statement
// (in source order) to its 1-based ordinal.
func loopOrdinals(f *ssa.Function) []ast.Node {
	var loops []ast.Node
	syn := f.Syntax()
	if syn == nil {
		return nil
	}
	var body *ast.BlockStmt
	switch n := syn.(type) {
	case *ast.FuncDecl:
		body = n.Body
	case *ast.FuncLit:
		body = n.Body
	}
	if body == nil {
		return nil
	}
	ast.Inspect(body, func(n ast.Node) bool {
		switch n.(type) {
		case *ast.FuncLit:
			return false
		case *ast.ForStmt, *ast.RangeStmt:
			loops = append(loops, n)
		}
		return true
	})
	return loops
}
