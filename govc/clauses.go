package main

// Clause-level handling: conjunct splitting, skolemisation of universally
// quantified goals, heuristic instantiation of universally quantified
// assumptions ("shift" instances i0, i0+d, i0-d), skolemisation of
// existential assumptions and candidate witnesses for existential goals.

import (
	"fmt"
	"sort"
	"strings"

	"golang.org/x/tools/go/ssa"
)

type clausePart struct {
	hyps  []Expr
	concl Expr
}

// clauseParts splits a clause over top-level && and ==>.
func clauseParts(e Expr) []clausePart {
	switch x := e.(type) {
	case *EBin:
		switch x.Op {
		case "&&":
			return append(clauseParts(x.X), clauseParts(x.Y)...)
		case "==>":
			var out []clausePart
			for _, p := range clauseParts(x.Y) {
				out = append(out, clausePart{hyps: append([]Expr{x.X}, p.hyps...), concl: p.concl})
			}
			return out
		}
	}
	return []clausePart{{concl: e}}
}

// QFact is a universally quantified assumption available for instantiation.
type QFact struct {
	lineIdx int
	guard   Term
	varSym  string
	varSort Sort // sort of the bound variable ("" = Int)
	ref     bool // the bound variable is a typed reference ("forall c *T"): never instantiated at index arithmetic
	body    Term // range ==> body, with varSym free
	unfolds []unfoldT
}

// SkolemFn is the skolem function of an existential that occurs positively
// under a universally quantified assumption: "forall v :: H ==> exists i :: B"
// is assumed in the form "forall v :: H ==> B[i := f(v)]", so that f(sk) is a
// named candidate witness when a goal about sk needs one.
type SkolemFn struct {
	lineIdx int
	name    string
	dom     Sort
	ref     bool
}

// Witness is a skolem constant of an assumed existential.
type Witness struct {
	lineIdx int
	t       Term
}

func (e *Env) evalHyps(hyps []Expr) (Term, error) {
	g := tTrue
	for _, h := range hyps {
		t, err := e.evalBool(h)
		if err != nil {
			return Term{}, err
		}
		g = and(g, t)
	}
	return g, nil
}

// quantParts evaluates a quantifier with its bound variable left free and
// returns the variable symbol, the range condition and the body.
func (e *Env) quantParts(q *EQuant) (string, Term, Term, error) {
	v, rng, body, _, err := e.quantPartsU(q)
	return v, rng, body, err
}

func (e *Env) quantPartsU(q *EQuant) (string, Term, Term, []unfoldT, error) {
	v, rng, body, err := e.quantParts0(q)
	if err != nil {
		return "", Term{}, Term{}, nil, err
	}
	u := e.lastUnfolds
	e.lastUnfolds = nil
	return v, rng, body, u, nil
}

func (e *Env) quantParts0(q *EQuant) (string, Term, Term, error) {
	e.vc.nfresh++
	v := quote(fmt.Sprintf("q:%s!%d", q.Var, e.vc.nfresh))
	qt, err := e.quantVarType(q)
	if err != nil {
		return "", Term{}, Term{}, err
	}
	env := e.with(map[string]TV{q.Var: {Term{v, q.varSort()}, qt}})
	env.bound = true
	var unf []unfoldT
	env.unfolds = &unf
	body, err := env.evalBool(q.Body)
	if err != nil {
		return "", Term{}, Term{}, err
	}
	e.lastUnfolds = unf
	rng := tTrue
	if q.Lo != nil {
		lo, err := e.eval(q.Lo)
		if err != nil {
			return "", Term{}, Term{}, err
		}
		hi, err := e.eval(q.Hi)
		if err != nil {
			return "", Term{}, Term{}, err
		}
		rng = and(le(lo.T, Term{v, SInt}), lt(Term{v, SInt}, hi.T))
	}
	return v, rng, body, nil
}

func subst(t Term, sym string, by Term) Term {
	return Term{strings.ReplaceAll(t.S, sym, by.S), t.Sort}
}

// assumeClause assumes a contract clause, records its universally quantified
// conjuncts for later instantiation and skolemises existential conjuncts.
func (vc *VC) assumeClause(guard Term, env *Env, cl *Clause) {
	g, err := env.evalBool(cl.E)
	if err != nil {
		vc.specError(cl, err)
		return
	}
	vc.assume(guard, g)
	for _, p := range clauseParts(cl.E) {
		q, ok := p.concl.(*EQuant)
		if !ok {
			continue
		}
		h, err := env.evalHyps(p.hyps)
		if err != nil {
			continue
		}
		v, rng, body, unf, err := env.quantPartsU(q)
		if err != nil {
			continue
		}
		if q.Forall {
			vc.qfacts = append(vc.qfacts, &QFact{lineIdx: len(vc.lines), guard: and(guard, h), varSym: v, varSort: q.varSort(), ref: q.isRef(), body: implies(rng, body), unfolds: unf})
			vc.skolemiseInner(guard, h, env, q, v, rng)
			continue
		}
		w := vc.fresh("ex:"+q.Var, q.varSort())
		if q.isRef() {
			vc.refTerms[w.S] = true
		}
		vc.assume(and(guard, h), subst(and(rng, body), v, w))
		vc.witnesses = append(vc.witnesses, &Witness{lineIdx: len(vc.lines), t: w})
		// a universally quantified conjunct under the existential becomes a
		// fact at the witness
		for _, ip := range clauseParts(q.Body) {
			iq, ok := ip.concl.(*EQuant)
			if !ok || !iq.Forall {
				continue
			}
			wt, _ := env.quantVarType(q)
			ienv := env.with(map[string]TV{q.Var: {w, wt}})
			ih, err := ienv.evalHyps(ip.hyps)
			if err != nil {
				continue
			}
			iv, irng, ibody, err := ienv.quantParts(iq)
			if err != nil {
				continue
			}
			vc.qfacts = append(vc.qfacts, &QFact{lineIdx: len(vc.lines), guard: and(guard, h, ih), varSym: iv, varSort: iq.varSort(), ref: iq.isRef(), body: implies(irng, ibody)})
		}
	}
}

// skolemiseInner: for an assumed "forall v :: rng ==> (... H ==> exists i :: B ...)"
// whose existential is reached from the body through && and the right-hand
// sides of ==> only (a positive position), assume also
// "forall v :: rng && H ==> B[i := f(v)]" for a new function f, and remember f.
func (vc *VC) skolemiseInner(guard, h Term, env *Env, q *EQuant, v string, rng Term) {
	qs := q.varSort()
	qt, err := env.quantVarType(q)
	if err != nil {
		return
	}
	benv := env.with(map[string]TV{q.Var: {Term{v, qs}, qt}})
	benv.bound = true
	for _, ip := range clauseParts(q.Body) {
		iq, ok := ip.concl.(*EQuant)
		if !ok || iq.Forall || (iq.VarTyp != "" && iq.VarTyp != "int") {
			continue
		}
		ih, err := benv.evalHyps(ip.hyps)
		if err != nil {
			continue
		}
		iv, irng, ibody, err := benv.quantParts(iq)
		if err != nil {
			continue
		}
		vc.nfresh++
		fname := quote(fmt.Sprintf("skf:%s!%d", iq.Var, vc.nfresh))
		vc.declare("skf:"+fname, fmt.Sprintf("(declare-fun %s (%s) Int)", fname, qs))
		app := Term{"(" + fname + " " + v + ")", SInt}
		fact := implies(and(rng, ih), subst(and(irng, ibody), iv, app))
		vc.assume(and(guard, h), T(SBool, "(forall ((%s %s)) (! %s :pattern (%s)))", v, qs, fact.S, app.S))
		vc.qfacts = append(vc.qfacts, &QFact{lineIdx: len(vc.lines), guard: and(guard, h), varSym: v, varSort: qs, ref: q.isRef(), body: fact})
		vc.skolemFns = append(vc.skolemFns, &SkolemFn{lineIdx: len(vc.lines), name: fname, dom: qs, ref: q.isRef()})
	}
}

// existentialGoal rebuilds the body of a universally quantified goal that has
// been skolemised at sk, offering candidate witnesses to every existential
// that is reached through && and the right-hand sides of ==>: the values at sk
// of the skolem functions of the assumptions, and the ends of the
// existential's own range. Each added disjunct implies the existential, so
// the strengthened goal implies the original one.
func (vc *VC) existentialGoal(env *Env, q *EQuant, sk Term) (Term, bool) {
	parts := clauseParts(q.Body)
	eligible := false
	for _, ip := range parts {
		if iq, ok := ip.concl.(*EQuant); ok && !iq.Forall && (iq.VarTyp == "" || iq.VarTyp == "int") && iq.Lo != nil {
			eligible = true
		}
	}
	if !eligible {
		return Term{}, false
	}
	qt, err := env.quantVarType(q)
	if err != nil {
		return Term{}, false
	}
	// sk is declared with the obligation only: evaluate as under a binder, so
	// that nothing about it is added to the shared prefix
	senv := env.with(map[string]TV{q.Var: {sk, qt}})
	senv.bound = true
	any := false
	goal := tTrue
	for _, ip := range parts {
		ih, err := senv.evalHyps(ip.hyps)
		if err != nil {
			return Term{}, false
		}
		iq, ok := ip.concl.(*EQuant)
		if !ok || iq.Forall || (iq.VarTyp != "" && iq.VarTyp != "int") || iq.Lo == nil {
			c, err := senv.evalBool(ip.concl)
			if err != nil {
				return Term{}, false
			}
			goal = and(goal, implies(ih, c))
			continue
		}
		orig, err := senv.evalBool(ip.concl)
		if err != nil {
			return Term{}, false
		}
		iv, irng, ibody, err := senv.quantParts(iq)
		if err != nil {
			return Term{}, false
		}
		var cands []Term
		for _, f := range vc.skolemFns {
			if f.lineIdx <= len(vc.lines) && f.dom == sk.Sort && f.ref == q.isRef() {
				cands = append(cands, Term{"(" + f.name + " " + sk.S + ")", SInt})
			}
		}
		if lo, err := senv.eval(iq.Lo); err == nil {
			cands = append(cands, lo.T)
		}
		if hi, err := senv.eval(iq.Hi); err == nil {
			cands = append(cands, sub(hi.T, intLit(1)))
		}
		disj := []Term{orig}
		for _, c := range cands {
			disj = append(disj, subst(and(irng, ibody), iv, c))
		}
		goal = and(goal, implies(ih, or(disj...)))
		any = true
	}
	return goal, any
}

// obligeClause emits one obligation per conjunct of a clause. Universally
// quantified conjuncts are skolemised and given instances of the recorded
// quantified assumptions; existential conjuncts are offered candidate
// witnesses (each candidate disjunct implies the original goal).
func (vc *VC) obligeClause(kind, label, site string, guard Term, env *Env, cl *Clause) {
	parts := clauseParts(cl.E)
	for i, p := range parts {
		h, err := env.evalHyps(p.hyps)
		if err != nil {
			vc.specError(cl, err)
			return
		}
		psite := site
		if len(parts) > 1 {
			psite = fmt.Sprintf("%s.%d", site, i+1)
		}
		src := cl.Src
		if len(parts) > 1 {
			src = exprString(p.concl) + "   [conjunct of: " + cl.Src + "]"
		}
		q, isQ := p.concl.(*EQuant)
		if isQ && q.Forall {
			v, rng, body, unf, err := env.quantPartsU(q)
			if err != nil {
				vc.specError(cl, err)
				return
			}
			vc.nfresh++
			sk := Term{quote(fmt.Sprintf("sk:%s!%d", q.Var, vc.nfresh)), q.varSort()}
			goal := subst(implies(rng, body), v, sk)
			if eg, ok := vc.existentialGoal(env, q, sk); ok {
				goal = implies(subst(rng, v, sk), eg)
			}
			o := vc.oblige(kind, label, psite, and(guard, h), goal, src)
			if o == nil {
				continue
			}
			o.Extra = append(o.Extra, fmt.Sprintf("(declare-const %s %s)", sk.S, sk.Sort))
			for _, u := range unf {
				o.Extra = append(o.Extra, "(assert "+subst(eq(u.app, u.body), v, sk).S+")")
			}
			if strings.HasPrefix(q.VarTyp, "*") {
				vc.addInstancesPtr(o, nil, []Term{sk})
				continue
			}
			if sk.Sort == SStr {
				// string-keyed quantifier (map keys): instances at the skolem,
				// at the string witnesses of assumed existentials and at the
				// string locals (e.g. the key of a range loop)
				cands := []Term{sk}
				for _, w := range vc.witnesses {
					if w.lineIdx <= len(vc.lines) && w.t.Sort == SStr {
						cands = append(cands, w.t)
					}
				}
				vc.addInstances(o, append(cands, vc.strCellTerms(env)...))
				continue
			}
			if q.isRef() {
				// a goal about all references of a type: the quantified
				// assumptions over references at the skolem constant and at
				// the reference witnesses (no index arithmetic)
				vc.refTerms[sk.S] = true
				cands := []Term{sk}
				for _, w := range vc.witnesses {
					if w.lineIdx <= len(vc.lines) && vc.refTerms[w.t.S] {
						cands = append(cands, w.t)
					}
				}
				vc.addInstances(o, cands)
				continue
			}
			vc.addInstances(o, vc.instCandidates([]Term{sk}, env))
			continue
		}
		if isQ && !q.Forall {
			v, rng, body, err := env.quantParts(q)
			if err != nil {
				vc.specError(cl, err)
				return
			}
			orig, err := env.evalBool(p.concl)
			if err != nil {
				vc.specError(cl, err)
				return
			}
			var seeds []Term
			for _, w := range vc.witnesses {
				if w.lineIdx <= len(vc.lines) && w.t.Sort == q.varSort() {
					seeds = append(seeds, w.t)
				}
			}
			cands := vc.witnessCandidates(seeds, env)
			if q.varSort() == SStr {
				cands = nil
				for _, sd := range seeds {
					if sd.Sort == SStr {
						cands = append(cands, sd)
					}
				}
				cands = append(cands, vc.strCellTerms(env)...)
			}
			disj := []Term{orig}
			for _, c := range cands {
				disj = append(disj, subst(and(rng, body), v, c))
			}
			o := vc.oblige(kind, label, psite, and(guard, h), or(disj...), src)
			if o != nil {
				vc.addInstances(o, cands)
			}
			continue
		}
		g, err := env.evalBool(p.concl)
		if err != nil {
			vc.specError(cl, err)
			return
		}
		if o := vc.oblige(kind, label, psite, and(guard, h), g, src); o != nil && len(vc.qfacts) > 0 {
			// ground goal: offer the quantified assumptions at the integer locals
			vc.addInstances(o, append(vc.witnessCandidates(nil, env), vc.strCellTerms(env)...))
		}
	}
}

// strCellTerms lists the current values of the string-typed local variables
// and of string-sorted names bound in the environment: the candidates at
// which string-keyed quantified assumptions are instantiated.
func (vc *VC) strCellTerms(env *Env) []Term {
	var out []Term
	seen := map[string]bool{}
	st := env.cellState()
	if st != nil {
		var keys []ssa.Value
		for k := range st.cells {
			if _, ok := k.(*ssa.Alloc); ok {
				keys = append(keys, k)
			}
		}
		sortValues(keys)
		for _, k := range keys {
			t := st.cells[k]
			if t.Sort == SStr && !seen[t.S] && len(out) < 8 {
				seen[t.S] = true
				out = append(out, t)
			}
		}
	}
	var names []string
	for n := range env.vars {
		names = append(names, n)
	}
	sort.Strings(names)
	for _, n := range names {
		tv := env.vars[n]
		if tv.T.Sort == SStr && !seen[tv.T.S] && len(out) < 12 {
			seen[tv.T.S] = true
			out = append(out, tv.T)
		}
	}
	return out
}

func (vc *VC) addInstances(o *Obligation, cands []Term) {
	vc.addInstancesPtr(o, cands, nil)
}

// addInstancesPtr: ptrCands are reference-valued terms (the skolem of a
// "forall x *T" goal) at which reference-typed quantified facts are
// instantiated; all other facts are instantiated at cands.
func (vc *VC) addInstancesPtr(o *Obligation, cands []Term, ptrCands []Term) {
	for _, qf := range vc.qfacts {
		if qf.lineIdx > o.PrefixLen {
			continue
		}
		if qf.ref {
			// (the general loop below additionally instantiates reference
			// facts at the known reference terms)
			for _, c := range ptrCands {
				o.Extra = append(o.Extra, "(assert "+implies(qf.guard, subst(qf.body, qf.varSym, c)).S+")")
			}
		}
		for _, c := range cands {
			if (qf.varSort == SStr) != (c.Sort == SStr) || qf.ref != vc.refTerms[c.S] {
				continue
			}
			o.Inst = append(o.Inst, "(assert "+implies(qf.guard, subst(qf.body, qf.varSym, c)).S+")")
			for _, u := range qf.unfolds {
				o.Inst = append(o.Inst, "(assert "+subst(eq(u.app, u.body), qf.varSym, c).S+")")
			}
		}
	}
}

// intCellTerms lists the current values of the integer local variables.
func (vc *VC) intCellTerms(env *Env) []Term {
	var out []Term
	states := []*State{env.cellState()}
	if env.pre != nil {
		states = append(states, env.pre)
	}
	seen := map[string]bool{}
	for _, st := range states {
		var keys []ssa.Value
		for k := range st.cells {
			if _, ok := k.(*ssa.Alloc); ok {
				keys = append(keys, k)
			}
		}
		sortValues(keys)
		for _, k := range keys {
			t := st.cells[k]
			// only integer-typed locals are index candidates (pointers, maps
			// and interfaces share the Int sort but are never indices)
			if !isInteger(derefType(k.Type())) {
				continue
			}
			if t.Sort == SInt && !seen[t.S] {
				seen[t.S] = true
				out = append(out, t)
			}
		}
	}
	for _, d := range vc.deltas {
		if !seen[d.S] {
			seen[d.S] = true
			out = append(out, d)
		}
	}
	// integer-valued names bound in the environment (lemma parameters,
	// function parameters)
	var names []string
	for n := range env.vars {
		names = append(names, n)
	}
	sort.Strings(names)
	for _, n := range names {
		tv := env.vars[n]
		if tv.T.Sort != SInt || seen[tv.T.S] {
			continue
		}
		if tv.Typ != nil && !isInteger(tv.Typ) {
			continue
		}
		seen[tv.T.S] = true
		out = append(out, tv.T)
	}
	return out
}

// instCandidates lists the terms at which quantified assumptions are
// instantiated for a goal skolemised at sks: sk, sk+-1, sk+-d.
func (vc *VC) instCandidates(sks []Term, env *Env) []Term {
	seen := map[string]bool{}
	var out []Term
	push := func(t Term) {
		if !seen[t.S] && len(out) < 48 {
			seen[t.S] = true
			out = append(out, t)
		}
	}
	deltas := append([]Term{intLit(1)}, vc.intCellTerms(env)...)
	for _, sk := range sks {
		push(sk)
		for _, d := range deltas {
			if d.S == "0" {
				continue
			}
			push(add(sk, d))
			push(sub(sk, d))
		}
	}
	// the integer locals themselves (e.g. the current loop index): a quantified
	// assumption is often needed at the element the loop body just handled
	for _, d := range deltas[1:] {
		push(d)
	}
	return out
}

// witnessCandidates lists candidate witnesses for an existential goal:
// skolems of assumed existentials and the integer locals, each also +-1.
func (vc *VC) witnessCandidates(seeds []Term, env *Env) []Term {
	seen := map[string]bool{}
	var out []Term
	push := func(t Term) {
		if !seen[t.S] && len(out) < 24 {
			seen[t.S] = true
			out = append(out, t)
		}
	}
	for _, s := range seeds {
		push(s)
	}
	for _, c := range vc.intCellTerms(env) {
		push(c)
		push(add(c, intLit(1)))
		push(sub(c, intLit(1)))
	}
	// the hidden indices of "for range" loops are always offered, also when a
	// function has more integer locals than the cap admits: a quantified
	// invariant over the ranged slice is needed at the element in hand
	st := env.cellState()
	if st != nil {
		var keys []ssa.Value
		for k := range st.cells {
			if a, ok := k.(*ssa.Alloc); ok && a.Comment == "rangeindex" {
				keys = append(keys, k)
			}
		}
		sortValues(keys)
		for _, k := range keys {
			c := st.cells[k]
			if c.Sort != SInt {
				continue
			}
			for _, t := range []Term{c, add(c, intLit(1)), sub(c, intLit(1))} {
				if !seen[t.S] {
					seen[t.S] = true
					out = append(out, t)
				}
			}
		}
	}
	return out
}

func sortValues(vs []ssa.Value) {
	for i := 1; i < len(vs); i++ {
		for j := i; j > 0 && valueKey(vs[j]) < valueKey(vs[j-1]); j-- {
			vs[j], vs[j-1] = vs[j-1], vs[j]
		}
	}
}
