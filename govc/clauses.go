package main

// Clause-level handling: conjunct splitting, skolemisation of universally
// quantified goals, heuristic instantiation of universally quantified
// assumptions ("shift" instances i0, i0+d, i0-d), skolemisation of
// existential assumptions and candidate witnesses for existential goals.

import (
	"fmt"
	"go/types"
	"sort"
	"strings"

	"golang.org/x/tools/go/ssa"
)

type clausePart struct {
	hyps  []Expr
	concl Expr
}

// clauseParts splits a clause over top-level && and ==>.
func clauseParts(e Expr) []clausePart {
	switch x := e.(type) {
	case *EBin:
		switch x.Op {
		case "&&":
			return append(clauseParts(x.X), clauseParts(x.Y)...)
		case "==>":
			var out []clausePart
			for _, p := range clauseParts(x.Y) {
				out = append(out, clausePart{hyps: append([]Expr{x.X}, p.hyps...), concl: p.concl})
			}
			return out
		}
	}
	return []clausePart{{concl: e}}
}

// QFact is a universally quantified assumption available for instantiation.
type QFact struct {
	lineIdx int
	guard   Term
	varSym  string
	body    Term // range ==> body, with varSym free
	unfolds []unfoldT
}

// Witness is a skolem constant of an assumed existential.
type Witness struct {
	lineIdx int
	t       Term
}

func (e *Env) evalHyps(hyps []Expr) (Term, error) {
	g := tTrue
	for _, h := range hyps {
		t, err := e.evalBool(h)
		if err != nil {
			return Term{}, err
		}
		g = and(g, t)
	}
	return g, nil
}

// quantParts evaluates a quantifier with its bound variable left free and
// returns the variable symbol, the range condition and the body.
func (e *Env) quantParts(q *EQuant) (string, Term, Term, error) {
	v, rng, body, _, err := e.quantPartsU(q)
	return v, rng, body, err
}

func (e *Env) quantPartsU(q *EQuant) (string, Term, Term, []unfoldT, error) {
	v, rng, body, err := e.quantParts0(q)
	if err != nil {
		return "", Term{}, Term{}, nil, err
	}
	u := e.lastUnfolds
	e.lastUnfolds = nil
	return v, rng, body, u, nil
}

func (e *Env) quantParts0(q *EQuant) (string, Term, Term, error) {
	e.vc.nfresh++
	v := quote(fmt.Sprintf("q:%s!%d", q.Var, e.vc.nfresh))
	vtyp, vsort, terr := e.quantVarType(q)
	if terr != nil {
		return "", Term{}, Term{}, terr
	}
	env := e.with(map[string]TV{q.Var: {Term{v, vsort}, vtyp}})
	env.bound = true
	var unf []unfoldT
	env.unfolds = &unf
	body, err := env.evalBool(q.Body)
	if err != nil {
		return "", Term{}, Term{}, err
	}
	e.lastUnfolds = unf
	rng := tTrue
	if q.Lo != nil {
		lo, err := e.eval(q.Lo)
		if err != nil {
			return "", Term{}, Term{}, err
		}
		hi, err := e.eval(q.Hi)
		if err != nil {
			return "", Term{}, Term{}, err
		}
		rng = and(le(lo.T, Term{v, SInt}), lt(Term{v, SInt}, hi.T))
	}
	return v, rng, body, nil
}

// quantVarType resolves the declared type of a quantifier's bound variable
// ("forall e *Entry :: ...", "forall k string :: ..."); int when undeclared.
func (e *Env) quantVarType(q *EQuant) (types.Type, Sort, error) {
	if q.VType == "" || q.VType == "int" {
		return tInt, SInt, nil
	}
	nerr := len(e.vc.errs)
	t, srt := e.vc.lemmaParamType(e, q.VType)
	if len(e.vc.errs) > nerr || t == nil {
		e.vc.errs = e.vc.errs[:nerr]
		return nil, SInt, fmt.Errorf("quantifier: unknown type %s", q.VType)
	}
	return t, srt, nil
}

func subst(t Term, sym string, by Term) Term {
	return Term{strings.ReplaceAll(t.S, sym, by.S), t.Sort}
}

// assumeClause assumes a contract clause, records its universally quantified
// conjuncts for later instantiation and skolemises existential conjuncts.
func (vc *VC) assumeClause(guard Term, env *Env, cl *Clause) {
	g, err := env.evalBool(cl.E)
	if err != nil {
		vc.specError(cl, err)
		return
	}
	vc.assume(guard, g)
	for _, p := range clauseParts(cl.E) {
		q, ok := p.concl.(*EQuant)
		if !ok {
			continue
		}
		h, err := env.evalHyps(p.hyps)
		if err != nil {
			continue
		}
		v, rng, body, unf, err := env.quantPartsU(q)
		if err != nil {
			continue
		}
		if q.Forall {
			vc.qfacts = append(vc.qfacts, &QFact{lineIdx: len(vc.lines), guard: and(guard, h), varSym: v, body: implies(rng, body), unfolds: unf})
			continue
		}
		_, wsort, _ := env.quantVarType(q)
		w := vc.fresh("ex:"+q.Var, wsort)
		vc.assume(and(guard, h), subst(and(rng, body), v, w))
		vc.witnesses = append(vc.witnesses, &Witness{lineIdx: len(vc.lines), t: w})
		// a universally quantified conjunct under the existential becomes a
		// fact at the witness
		for _, ip := range clauseParts(q.Body) {
			iq, ok := ip.concl.(*EQuant)
			if !ok || !iq.Forall {
				continue
			}
			ienv := env.with(map[string]TV{q.Var: {w, tInt}})
			ih, err := ienv.evalHyps(ip.hyps)
			if err != nil {
				continue
			}
			iv, irng, ibody, err := ienv.quantParts(iq)
			if err != nil {
				continue
			}
			vc.qfacts = append(vc.qfacts, &QFact{lineIdx: len(vc.lines), guard: and(guard, h, ih), varSym: iv, body: implies(irng, ibody)})
		}
	}
}

// obligeClause emits one obligation per conjunct of a clause. Universally
// quantified conjuncts are skolemised and given instances of the recorded
// quantified assumptions; existential conjuncts are offered candidate
// witnesses (each candidate disjunct implies the original goal).
func (vc *VC) obligeClause(kind, label, site string, guard Term, env *Env, cl *Clause) {
	parts := clauseParts(cl.E)
	for i, p := range parts {
		h, err := env.evalHyps(p.hyps)
		if err != nil {
			vc.specError(cl, err)
			return
		}
		psite := site
		if len(parts) > 1 {
			psite = fmt.Sprintf("%s.%d", site, i+1)
		}
		src := cl.Src
		if len(parts) > 1 {
			src = exprString(p.concl) + "   [conjunct of: " + cl.Src + "]"
		}
		q, isQ := p.concl.(*EQuant)
		if isQ && q.Forall {
			v, rng, body, unf, err := env.quantPartsU(q)
			if err != nil {
				vc.specError(cl, err)
				return
			}
			vc.nfresh++
			_, sksort, _ := env.quantVarType(q)
			sk := Term{quote(fmt.Sprintf("sk:%s!%d", q.Var, vc.nfresh)), sksort}
			goal := subst(implies(rng, body), v, sk)
			o := vc.oblige(kind, label, psite, and(guard, h), goal, src)
			if o == nil {
				continue
			}
			o.Extra = append(o.Extra, fmt.Sprintf("(declare-const %s %s)", sk.S, sksort))
			for _, u := range unf {
				o.Extra = append(o.Extra, "(assert "+subst(eq(u.app, u.body), v, sk).S+")")
			}
			vc.addInstances(o, vc.instCandidates([]Term{sk}, env))
			continue
		}
		if isQ && !q.Forall {
			v, rng, body, err := env.quantParts(q)
			if err != nil {
				vc.specError(cl, err)
				return
			}
			orig, err := env.evalBool(p.concl)
			if err != nil {
				vc.specError(cl, err)
				return
			}
			var seeds []Term
			for _, w := range vc.witnesses {
				if w.lineIdx <= len(vc.lines) {
					seeds = append(seeds, w.t)
				}
			}
			cands := vc.witnessCandidates(seeds, env)
			disj := []Term{orig}
			for _, c := range cands {
				disj = append(disj, subst(and(rng, body), v, c))
			}
			o := vc.oblige(kind, label, psite, and(guard, h), or(disj...), src)
			if o != nil {
				vc.addInstances(o, cands)
			}
			continue
		}
		g, err := env.evalBool(p.concl)
		if err != nil {
			vc.specError(cl, err)
			return
		}
		if o := vc.oblige(kind, label, psite, and(guard, h), g, src); o != nil && len(vc.qfacts) > 0 {
			// ground goal: offer the quantified assumptions at the integer locals
			vc.addInstances(o, vc.witnessCandidates(nil, env))
		}
	}
}

func (vc *VC) addInstances(o *Obligation, cands []Term) {
	for _, qf := range vc.qfacts {
		if qf.lineIdx > o.PrefixLen {
			continue
		}
		for _, c := range cands {
			o.Extra = append(o.Extra, "(assert "+implies(qf.guard, subst(qf.body, qf.varSym, c)).S+")")
			for _, u := range qf.unfolds {
				o.Extra = append(o.Extra, "(assert "+subst(eq(u.app, u.body), qf.varSym, c).S+")")
			}
		}
	}
}

// intCellTerms lists the current values of the integer local variables.
func (vc *VC) intCellTerms(env *Env) []Term {
	var out []Term
	states := []*State{env.cellState()}
	if env.pre != nil {
		states = append(states, env.pre)
	}
	seen := map[string]bool{}
	for _, st := range states {
		var keys []ssa.Value
		for k := range st.cells {
			if _, ok := k.(*ssa.Alloc); ok {
				keys = append(keys, k)
			}
		}
		sortValues(keys)
		for _, k := range keys {
			t := st.cells[k]
			// only integer-typed locals are index candidates (pointers, maps
			// and interfaces share the Int sort but are never indices)
			if !isInteger(derefType(k.Type())) {
				continue
			}
			if t.Sort == SInt && !seen[t.S] {
				seen[t.S] = true
				out = append(out, t)
			}
		}
	}
	for _, d := range vc.deltas {
		if !seen[d.S] {
			seen[d.S] = true
			out = append(out, d)
		}
	}
	// integer-valued names bound in the environment (lemma parameters,
	// function parameters)
	var names []string
	for n := range env.vars {
		names = append(names, n)
	}
	sort.Strings(names)
	for _, n := range names {
		tv := env.vars[n]
		if tv.T.Sort != SInt || seen[tv.T.S] {
			continue
		}
		if tv.Typ != nil && !isInteger(tv.Typ) {
			continue
		}
		seen[tv.T.S] = true
		out = append(out, tv.T)
	}
	return out
}

// instCandidates lists the terms at which quantified assumptions are
// instantiated for a goal skolemised at sks: sk, sk+-1, sk+-d.
func (vc *VC) instCandidates(sks []Term, env *Env) []Term {
	seen := map[string]bool{}
	var out []Term
	push := func(t Term) {
		if !seen[t.S] && len(out) < 48 {
			seen[t.S] = true
			out = append(out, t)
		}
	}
	deltas := append([]Term{intLit(1)}, vc.intCellTerms(env)...)
	for _, sk := range sks {
		push(sk)
		for _, d := range deltas {
			if d.S == "0" {
				continue
			}
			push(add(sk, d))
			push(sub(sk, d))
		}
	}
	// the integer locals themselves (e.g. the current loop index): a quantified
	// assumption is often needed at the element the loop body just handled
	for _, d := range deltas[1:] {
		push(d)
	}
	return out
}

// witnessCandidates lists candidate witnesses for an existential goal:
// skolems of assumed existentials and the integer locals, each also +-1.
func (vc *VC) witnessCandidates(seeds []Term, env *Env) []Term {
	seen := map[string]bool{}
	var out []Term
	push := func(t Term) {
		if !seen[t.S] && len(out) < 24 {
			seen[t.S] = true
			out = append(out, t)
		}
	}
	for _, s := range seeds {
		push(s)
	}
	for _, c := range vc.intCellTerms(env) {
		push(c)
		push(add(c, intLit(1)))
		push(sub(c, intLit(1)))
	}
	return out
}

func sortValues(vs []ssa.Value) {
	for i := 1; i < len(vs); i++ {
		for j := i; j > 0 && valueKey(vs[j]) < valueKey(vs[j-1]); j-- {
			vs[j], vs[j-1] = vs[j-1], vs[j]
		}
	}
}
