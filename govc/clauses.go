package main

// Clause-level handling: conjunct splitting, skolemisation of universally
// quantified goals and heuristic instantiation of universally quantified
// assumptions ("shift" instances i0, i0+d, i0-d).

import (
	"fmt"
	"strings"

	"golang.org/x/tools/go/ssa"
)

type clausePart struct {
	hyps  []Expr
	concl Expr
}

// clauseParts splits a clause over top-level && and ==>.
func clauseParts(e Expr) []clausePart {
	switch x := e.(type) {
	case *EBin:
		switch x.Op {
		case "&&":
			return append(clauseParts(x.X), clauseParts(x.Y)...)
		case "==>":
			var out []clausePart
			for _, p := range clauseParts(x.Y) {
				out = append(out, clausePart{hyps: append([]Expr{x.X}, p.hyps...), concl: p.concl})
			}
			return out
		}
	}
	return []clausePart{{concl: e}}
}

// QFact is a universally quantified assumption available for instantiation.
type QFact struct {
	lineIdx int
	guard   Term
	varSym  string
	body    Term // range ==> body, with varSym free
}

func (e *Env) evalHyps(hyps []Expr) (Term, error) {
	g := tTrue
	for _, h := range hyps {
		t, err := e.evalBool(h)
		if err != nil {
			return Term{}, err
		}
		g = and(g, t)
	}
	return g, nil
}

// quantBody evaluates a forall with its bound variable left free and returns
// the variable symbol and "range ==> body".
func (e *Env) quantBody(q *EQuant) (string, Term, error) {
	e.vc.nfresh++
	v := quote(fmt.Sprintf("q:%s!%d", q.Var, e.vc.nfresh))
	env := e.with(map[string]TV{q.Var: {Term{v, SInt}, tInt}})
	env.bound = true
	body, err := env.evalBool(q.Body)
	if err != nil {
		return "", Term{}, err
	}
	rng := tTrue
	if q.Lo != nil {
		lo, err := e.eval(q.Lo)
		if err != nil {
			return "", Term{}, err
		}
		hi, err := e.eval(q.Hi)
		if err != nil {
			return "", Term{}, err
		}
		rng = and(le(lo.T, Term{v, SInt}), lt(Term{v, SInt}, hi.T))
	}
	return v, implies(rng, body), nil
}

// assumeClause assumes a contract clause and records its universally
// quantified conjuncts for later instantiation.
func (vc *VC) assumeClause(guard Term, env *Env, cl *Clause) {
	g, err := env.evalBool(cl.E)
	if err != nil {
		vc.specError(cl, err)
		return
	}
	vc.assume(guard, g)
	for _, p := range clauseParts(cl.E) {
		q, ok := p.concl.(*EQuant)
		if !ok || !q.Forall {
			continue
		}
		h, err := env.evalHyps(p.hyps)
		if err != nil {
			continue
		}
		v, body, err := env.quantBody(q)
		if err != nil {
			continue
		}
		vc.qfacts = append(vc.qfacts, &QFact{lineIdx: len(vc.lines), guard: and(guard, h), varSym: v, body: body})
	}
}

// obligeClause emits one obligation per conjunct of a clause; universally
// quantified conjuncts are skolemised and given instances of the recorded
// quantified assumptions.
func (vc *VC) obligeClause(kind, label, site string, guard Term, env *Env, cl *Clause) {
	parts := clauseParts(cl.E)
	for i, p := range parts {
		h, err := env.evalHyps(p.hyps)
		if err != nil {
			vc.specError(cl, err)
			return
		}
		psite := site
		if len(parts) > 1 {
			psite = fmt.Sprintf("%s.%d", site, i+1)
		}
		src := cl.Src
		if len(parts) > 1 {
			src = exprString(p.concl) + "   [conjunct of: " + cl.Src + "]"
		}
		if q, ok := p.concl.(*EQuant); ok && q.Forall {
			v, body, err := env.quantBody(q)
			if err != nil {
				vc.specError(cl, err)
				return
			}
			vc.nfresh++
			sk := quote(fmt.Sprintf("sk:%s!%d", q.Var, vc.nfresh))
			goal := Term{strings.ReplaceAll(body.S, v, sk), SBool}
			o := vc.oblige(kind, label, psite, and(guard, h), goal, src)
			if o == nil {
				continue
			}
			o.Extra = append(o.Extra, fmt.Sprintf("(declare-const %s Int)", sk))
			cands := vc.instCandidates(Term{sk, SInt}, env)
			for _, qf := range vc.qfacts {
				if qf.lineIdx > o.PrefixLen {
					continue
				}
				for _, c := range cands {
					inst := strings.ReplaceAll(qf.body.S, qf.varSym, c.S)
					o.Extra = append(o.Extra, "(assert "+implies(qf.guard, Term{inst, SBool}).S+")")
				}
			}
			continue
		}
		g, err := env.evalBool(p.concl)
		if err != nil {
			vc.specError(cl, err)
			return
		}
		vc.oblige(kind, label, psite, and(guard, h), g, src)
	}
}

// instCandidates lists the terms at which quantified assumptions are
// instantiated for a goal skolemised at sk.
func (vc *VC) instCandidates(sk Term, env *Env) []Term {
	seen := map[string]bool{sk.S: true}
	out := []Term{sk}
	addDelta := func(d Term) {
		if d.Sort != SInt || d.S == "0" || len(out) > 40 {
			return
		}
		for _, c := range []Term{add(sk, d), sub(sk, d)} {
			if !seen[c.S] {
				seen[c.S] = true
				out = append(out, c)
			}
		}
	}
	addDelta(intLit(1))
	states := []*State{env.cellState()}
	if env.pre != nil {
		states = append(states, env.pre)
	}
	for _, st := range states {
		var keys []ssa.Value
		for k := range st.cells {
			if _, ok := k.(*ssa.Alloc); ok {
				keys = append(keys, k)
			}
		}
		sortValues(keys)
		for _, k := range keys {
			addDelta(st.cells[k])
		}
	}
	for _, d := range vc.deltas {
		addDelta(d)
	}
	return out
}

func sortValues(vs []ssa.Value) {
	for i := 1; i < len(vs); i++ {
		for j := i; j > 0 && valueKey(vs[j]) < valueKey(vs[j-1]); j-- {
			vs[j], vs[j-1] = vs[j-1], vs[j]
		}
	}
}
