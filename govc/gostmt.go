package main

import (
	"fmt"
	"go/types"

	"golang.org/x/tools/go/ssa"
)

// goRequires emits the obligations that the preconditions of the function
// started by a go statement hold at the spawn site. For a closure, its
// contract may name captured variables: they are this function's locals.
func (fr *Frame) goRequires(in *ssa.Go, st *State, pc Term) {
	vc := fr.vc
	c := &in.Call
	var callee *ssa.Function
	isClosure := false
	if ci, ok := fr.closures[c.Value]; ok {
		callee, isClosure = ci.fn, true
	} else {
		callee = c.StaticCallee()
	}
	if callee == nil {
		return
	}
	fc := vc.specs.contractFor(funcName(callee))
	if fc == nil || len(fc.Requires) == 0 {
		return
	}
	env := &Env{vc: vc, vars: map[string]TV{}, st: st, old: st, pkgKey: fc.Pkg}
	if callee.Pkg != nil {
		env.pkg = callee.Pkg.Pkg
	} else if fr.fn.Pkg != nil {
		env.pkg = fr.fn.Pkg.Pkg
	}
	if isClosure {
		env.fr = fr
	}
	var argTypes []types.Type
	var args []Term
	for _, a := range c.Args {
		args = append(args, fr.val(a))
		argTypes = append(argTypes, a.Type())
	}
	for i, p := range callee.Params {
		if i < len(args) {
			env.vars[p.Name()] = TV{args[i], argTypes[i]}
		}
	}
	fr.callOrd["go:"+funcName(callee)]++
	site := fmt.Sprintf("go:%s#%d", shortCallee(funcName(callee)), fr.callOrd["go:"+funcName(callee)])
	for _, r := range fc.Requires {
		vc.obligeClause("pre", r.Label, site+":"+labelOr(r.Label, "requires"), pc, env, r)
	}
}
