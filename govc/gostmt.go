package main

import (
	"fmt"
	"go/types"
	"strings"

	"golang.org/x/tools/go/ssa"
)

// goRequires emits the obligations that the preconditions of the function
// started by a go statement hold at the spawn site. For a closure, its
// contract may name captured variables: they are this function's locals.
func (fr *Frame) goRequires(in *ssa.Go, st *State, pc Term) {
	vc := fr.vc
	c := &in.Call
	var callee *ssa.Function
	isClosure := false
	if ci, ok := fr.closures[c.Value]; ok {
		callee, isClosure = ci.fn, true
	} else {
		callee = c.StaticCallee()
	}
	if callee == nil {
		return
	}
	fc := vc.specs.contractFor(funcName(callee))
	if fc == nil || len(fc.Requires) == 0 {
		return
	}
	env := &Env{vc: vc, vars: map[string]TV{}, st: st, old: st, pkgKey: fc.Pkg}
	if callee.Pkg != nil {
		env.pkg = callee.Pkg.Pkg
	} else if fr.fn.Pkg != nil {
		env.pkg = fr.fn.Pkg.Pkg
	}
	if isClosure {
		env.fr = fr
	}
	var argTypes []types.Type
	var args []Term
	for _, a := range c.Args {
		args = append(args, fr.val(a))
		argTypes = append(argTypes, a.Type())
	}
	for i, p := range callee.Params {
		if i < len(args) {
			env.vars[p.Name()] = TV{args[i], argTypes[i]}
		}
	}
	fr.callOrd["go:"+funcName(callee)]++
	site := fmt.Sprintf("go:%s#%d", shortCallee(funcName(callee)), fr.callOrd["go:"+funcName(callee)])
	for _, r := range fc.Requires {
		vc.obligeClause("pre", r.Label, site+":"+labelOr(r.Label, "requires"), pc, env, r)
	}
}

// goEnsures assumes the postconditions of the function started by a go
// statement, after the captured variables and the heaps have been havoced.
// govc executes the function sequentially: the values a goroutine leaves in
// the variables it shares with its parent are modelled as written at the
// spawn site, so what is known about them is what the goroutine's own
// (verified) contract guarantees on return. The parent must join the
// goroutine before reading them (sync.WaitGroup.Wait in the code under
// verification); that join is not modelled and is listed as an assumption.
// Clauses mentioning result values or old() are skipped.
func (fr *Frame) goEnsures(in *ssa.Go, st, pre *State, pc Term) {
	vc := fr.vc
	c := &in.Call
	ci, ok := fr.closures[c.Value]
	if !ok {
		return
	}
	callee := ci.fn
	fc := vc.specs.contractFor(funcName(callee))
	if fc == nil || len(fc.Ensures) == 0 {
		return
	}
	env := &Env{vc: vc, vars: map[string]TV{}, st: st, old: pre, pkgKey: fc.Pkg, fr: fr}
	if callee.Pkg != nil {
		env.pkg = callee.Pkg.Pkg
	} else if fr.fn.Pkg != nil {
		env.pkg = fr.fn.Pkg.Pkg
	}
	for i, p := range callee.Params {
		if i < len(c.Args) {
			env.vars[p.Name()] = TV{fr.val(c.Args[i]), c.Args[i].Type()}
		}
	}
	used := false
	for _, e := range fc.Ensures {
		if strings.Contains(e.Src, "old(") || strings.Contains(e.Src, "result") {
			continue
		}
		// clauses about names that exist only inside the spawned function
		// (its own "let" names) say nothing to the parent
		if _, err := env.evalBool(e.E); err != nil {
			continue
		}
		vc.assumeClause(pc, env, e)
		used = true
	}
	if used {
		vc.assumes["go statement in "+vc.fname+": the variables shared with "+shortCallee(funcName(callee))+" are read only after it has returned (join by sync.WaitGroup.Wait is not modelled); their values are those its verified postconditions describe"] = true
	}
}
