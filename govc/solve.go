package main

// Solver portfolio: one SMT-LIB query per obligation, raced across z3-new,
// z3 4.8 and cvc5.

import (
	"bytes"
	"context"
	"fmt"
	"os"
	"os/exec"
	"path/filepath"
	"regexp"
	"strconv"
	"strings"
	"sync"
	"time"
)

type solverCfg struct {
	name string
	argv func(file string, timeoutMs int) []string
}

// Effort limits. The two z3 versions are limited by z3's deterministic
// resource counter (rlimit), not by wall-clock time: the verdict on an
// obligation must not depend on how busy the machine is (a wall-clock timeout
// under load turns a proved obligation into an alarm). The wall-clock limits
// are only a far-out safety net. cvc5 has no comparable counter in this
// version's command line for all theories used, so it keeps a wall-clock
// limit; it only matters for the few obligations neither z3 decides.
var solvers = []solverCfg{
	{"z3-new", func(f string, effort int) []string {
		return []string{"z3-new", "-st", fmt.Sprintf("rlimit=%d", rlimitFor(effort)), hardTimeout(effort), f}
	}},
	{"z3", func(f string, effort int) []string {
		return []string{"z3", "-st", fmt.Sprintf("rlimit=%d", rlimitFor(effort)), hardTimeout(effort), f}
	}},
	{"cvc5", func(f string, effort int) []string {
		return []string{"cvc5", "--lang=smt2", fmt.Sprintf("--tlimit=%d", 3*effort), f}
	}},
}

// hardTimeout is the wall-clock safety net (z3 -T, seconds): eight times the
// nominal effort, at least 30 s. It only matters when z3 spends its time in a
// phase its resource counter does not see (observed: a cover query of
// rsync.Deltify ran for 15 minutes with rlimit=1.5e7); on an idle machine the
// resource limit always ends a query first.
func hardTimeout(effortMs int) string {
	t := effortMs * 8 / 1000
	if t < 30 {
		t = 30
	}
	return fmt.Sprintf("-T:%d", t)
}

// rlimitFor converts the tier's nominal effort (milliseconds on an idle
// machine) into z3 resource units; about 4e6 units per second were measured
// on the obligations of this project.
func rlimitFor(effortMs int) int64 {
	if n, err := strconv.ParseInt(os.Getenv("GOVC_RLIMIT"), 10, 64); err == nil && n > 0 {
		return n
	}
	return int64(effortMs) * 5000
}

var rlimitRe = regexp.MustCompile(`:rlimit-count\s+(\d+)`)

func (vc *VC) queryText(o *Obligation, withModel bool) string {
	return vc.queryTextOpt(o, withModel, false)
}

// queryTextOpt builds the SMT query of an obligation. The lean variant leaves
// out the heuristic instances of the quantified assumptions (the assumptions
// themselves are all there): on large contexts the instances can cost more
// than they help, so the portfolio also runs the query without them.
func (vc *VC) queryTextOpt(o *Obligation, withModel, lean bool) string {
	var b strings.Builder
	b.WriteString(prelude)
	extra := append([]string{}, o.Extra...)
	if !lean {
		extra = append(extra, o.Inst...)
	}
	o = &Obligation{Name: o.Name, Guard: o.Guard, Goal: o.Goal, Extra: extra, PrefixLen: o.PrefixLen, IsCover: o.IsCover}
	frameInst := vc.frameInstances(o.Guard.S+" "+o.Goal.S+" "+strings.Join(o.Extra, " "), o.PrefixLen)
	if noSlice {
		for _, d := range vc.decls {
			b.WriteString(d)
			b.WriteString("\n")
		}
		for _, l := range vc.lines[:o.PrefixLen] {
			b.WriteString(l)
			b.WriteString("\n")
		}
	} else {
		seed := o.Guard.S + " " + o.Goal.S + " " + strings.Join(o.Extra, " ") + " " + strings.Join(frameInst, " ")
		for _, l := range vc.slicer().slice(o.PrefixLen, seed) {
			b.WriteString(l)
			b.WriteString("\n")
		}
	}
	for _, l := range o.Extra {
		b.WriteString(l)
		b.WriteString("\n")
	}
	for _, l := range frameInst {
		b.WriteString(l)
		b.WriteString("\n")
	}
	fmt.Fprintf(&b, "(assert %s)\n", o.Guard.S)
	if !o.IsCover {
		fmt.Fprintf(&b, "(assert (not %s))\n", o.Goal.S)
	}
	b.WriteString("(check-sat)\n")
	if withModel {
		b.WriteString("(get-model)\n")
	}
	return b.String()
}

// noSlice disables relevance slicing (GOVC_NOSLICE=1), for debugging.
var noSlice = os.Getenv("GOVC_NOSLICE") != ""

type solveResult struct {
	verdict string // unsat sat unknown
	solver  string
	ms      int64
	rlimit  int64 // z3 resource units spent (0 for cvc5)
	output  string
}

func runSolver(ctx context.Context, s solverCfg, file string, timeoutMs int) solveResult {
	start := time.Now()
	argv := s.argv(file, timeoutMs)
	cctx, cancel := context.WithTimeout(ctx, 20*time.Minute)
	defer cancel()
	cmd := exec.CommandContext(cctx, argv[0], argv[1:]...)
	var out bytes.Buffer
	cmd.Stdout = &out
	cmd.Stderr = &out
	_ = cmd.Run()
	text := out.String()
	// the verdict is the first line that is not a solver warning (z3 prints
	// e.g. "WARNING: ... 'if' cannot be used in patterns" before the verdict)
	first := ""
	for _, ln := range strings.Split(text, "\n") {
		ln = strings.TrimSpace(ln)
		if ln == "" || strings.HasPrefix(ln, "WARNING") {
			continue
		}
		first = ln
		break
	}
	v := "unknown"
	switch first {
	case "unsat":
		v = "unsat"
	case "sat":
		v = "sat"
	}
	var rl int64
	if m := rlimitRe.FindStringSubmatch(text); m != nil {
		rl, _ = strconv.ParseInt(m[1], 10, 64)
	}
	if i := strings.Index(text, "(:"); i >= 0 && v != "sat" {
		text = text[:i] // drop the statistics block
	}
	return solveResult{verdict: v, solver: s.name, ms: time.Since(start).Milliseconds(), rlimit: rl, output: text}
}

// discharge decides one obligation. Fast path: z3-new alone with a short
// timeout; otherwise the full portfolio is raced.
func (vc *VC) discharge(o *Obligation, dir string, timeoutMs int, idx int) {
	file := filepath.Join(dir, fmt.Sprintf("q%05d.smt2", idx))
	if err := os.WriteFile(file, []byte(vc.queryText(o, true)), 0o644); err != nil {
		o.Status = "failed-unknown"
		o.Output = err.Error()
		return
	}
	defer os.Remove(file)
	leanFile := ""
	if len(o.Inst) > 0 {
		leanFile = filepath.Join(dir, fmt.Sprintf("q%05d-lean.smt2", idx))
		if err := os.WriteFile(leanFile, []byte(vc.queryTextOpt(o, true, true)), 0o644); err != nil {
			leanFile = ""
		} else {
			defer os.Remove(leanFile)
		}
	}
	apply := func(r solveResult) bool {
		switch r.verdict {
		case "unsat":
			if o.IsCover {
				o.Status = "failed-vacuous"
			} else {
				o.Status = "discharged"
			}
		case "sat":
			if o.IsCover {
				o.Status = "discharged"
			} else {
				o.Status = "failed-model"
				o.Model = r.output
			}
		default:
			return false
		}
		o.Solver, o.Ms, o.Rlimit, o.Output = r.solver, r.ms, r.rlimit, truncate(r.output, 4000)
		return true
	}
	if o.IsCover && timeoutMs > 3000 {
		// satisfiability of quantified contexts is often undecided; a cover
		// query only needs to detect provable unreachability
		timeoutMs = 3000
	}
	// stage 1: z3-new alone with a tenth of the (deterministic) effort - this
	// decides nearly every obligation
	stage1 := timeoutMs / 10
	if o.IsCover {
		stage1 = timeoutMs
	}
	fastFile, fastName := file, ""
	if leanFile != "" && len(o.Inst) >= 64 {
		// many heuristic instances: the plain query is usually the quicker one
		fastFile, fastName = leanFile, "(lean)"
	}
	r := runSolver(context.Background(), solvers[0], fastFile, stage1)
	r.solver += fastName
	if fastName != "" && r.verdict == "sat" {
		r.verdict = "unknown"
	}
	total := r.ms
	if apply(r) {
		return
	}
	if o.IsCover {
		// not refuted: the path is not shown unreachable
		o.Status = "discharged"
		o.Solver = "none(unknown)"
		o.Ms = total
		return
	}
	// stage 2: all three solvers with the full effort
	ctx, cancel := context.WithCancel(context.Background())
	defer cancel()
	ch := make(chan solveResult, len(solvers)+1)
	for _, s := range solvers {
		go func(s solverCfg) { ch <- runSolver(ctx, s, file, timeoutMs) }(s)
	}
	nrun := len(solvers)
	if leanFile != "" {
		// the same query without the heuristic instances
		nrun++
		go func() {
			r := runSolver(ctx, solvers[0], leanFile, timeoutMs)
			r.solver += "(lean)"
			if r.verdict == "sat" {
				// a model of the lean query need not be a model of the full one
				r.verdict = "unknown"
			}
			ch <- r
		}()
	}
	var outputs []string
	for i := 0; i < nrun; i++ {
		rr := <-ch
		outputs = append(outputs, rr.solver+": "+truncate(strings.TrimSpace(rr.output), 300))
		if rr.verdict != "unknown" {
			rr.ms += total
			apply(rr)
			cancel()
			return
		}
		if rr.ms > total {
			total = rr.ms
		}
	}
	if o.IsCover {
		// not refuted: the path is not shown unreachable
		o.Status = "discharged"
		o.Solver = "none(unknown)"
	} else {
		o.Status = "failed-unknown"
	}
	o.Ms = total
	o.Output = strings.Join(outputs, "\n")
}

func truncate(s string, n int) string {
	if len(s) <= n {
		return s
	}
	return s[:n] + "...[truncated]"
}

// dischargeAll runs all obligations with the given parallelism.
func dischargeAll(items []struct {
	vc *VC
	o  *Obligation
}, dir string, timeoutMs, par int) {
	var wg sync.WaitGroup
	sem := make(chan struct{}, par)
	for i := range items {
		wg.Add(1)
		sem <- struct{}{}
		go func(i int) {
			defer wg.Done()
			defer func() { <-sem }()
			items[i].vc.discharge(items[i].o, dir, timeoutMs, i)
		}(i)
	}
	wg.Wait()
}
