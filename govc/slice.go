package main

// Relevance slicing of queries. Large functions (hundreds of opaque calls,
// each havocing hundreds of heaps) produce contexts of more than ten thousand
// lines of which an obligation needs a few hundred. Dropping assertions only
// weakens the context, so slicing can make a proof fail but can never make an
// invalid obligation provable.
//
// A line is kept when one of its "trigger" symbols is relevant; keeping a line
// makes all its symbols relevant. Triggers: the defined name for declarations
// and definitions; for "(assert (=> G B))" the symbols of B (so that facts
// merely guarded by a relevant path condition are not dragged in), unless B
// has none.

import (
	"regexp"
	"strings"
)

type lineInfo struct {
	text    string
	kind    int // 0 always keep, 1 declare, 2 define, 3 assert
	name    string
	trig    []string
	all     []string
	control bool // assert whose body has no symbols: pure path-condition fact
}

var symRe = regexp.MustCompile(`\|[^|]*\|`)

func symbolsOf(s string) []string {
	m := symRe.FindAllString(s, -1)
	if strings.Contains(s, "wm0") {
		m = append(m, "wm0")
	}
	return m
}

func analyseLine(text string) *lineInfo {
	li := &lineInfo{text: text}
	switch {
	case strings.HasPrefix(text, "(declare-const "):
		li.kind = 1
		rest := text[len("(declare-const "):]
		end := sexprEnd(rest, 0)
		li.name = strings.TrimSpace(rest[:end])
		li.trig = []string{li.name}
		li.all = []string{li.name}
		// multi-line declarations carry their own assertions (string
		// constants, function identities): keep them with the declaration
	case strings.HasPrefix(text, "(define-fun "):
		li.kind = 2
		rest := text[len("(define-fun "):]
		end := sexprEnd(rest, 0)
		li.name = strings.TrimSpace(rest[:end])
		li.trig = []string{li.name}
		li.all = symbolsOf(text)
	case strings.HasPrefix(text, "(assert "):
		li.kind = 3
		li.all = symbolsOf(text)
		body := strings.TrimSuffix(strings.TrimPrefix(text, "(assert "), ")")
		if strings.HasPrefix(body, "(=> ") {
			inner := body[len("(=> "):]
			k := sexprEnd(inner, 0)
			concl := strings.TrimSpace(inner[k:])
			li.trig = symbolsOf(concl)
			if p := strings.LastIndex(concl, ":pattern "); p >= 0 && strings.HasPrefix(concl, "(forall") {
				if ps := symbolsOf(concl[p:]); len(ps) > 0 {
					li.trig = ps
				}
			}
			if len(li.trig) == 0 {
				li.control = true
				li.trig = li.all
			}
		} else {
			li.trig = li.all
		}
		// a quantified fact with a pattern is only useful when the pattern's
		// symbols are relevant
		if k := strings.LastIndex(body, ":pattern "); k >= 0 && strings.HasPrefix(body, "(forall") {
			if ps := symbolsOf(body[k:]); len(ps) > 0 {
				li.trig = ps
			}
		}
		if len(li.all) == 0 {
			li.kind = 0
		}
	default:
		li.kind = 0
	}
	return li
}

type slicer struct {
	infos []*lineInfo // decls then lines
	ndecl int
	bySym map[string][]int // trigger symbol -> line indices
}

func (vc *VC) slicer() *slicer {
	if vc.sl != nil && len(vc.sl.infos) == len(vc.decls)+len(vc.lines) {
		return vc.sl
	}
	s := &slicer{ndecl: len(vc.decls), bySym: map[string][]int{}}
	add := func(text string) {
		// a decl entry may hold several lines (declaration plus its axioms)
		li := analyseLine(text)
		if strings.Contains(text, "\n") {
			first := text[:strings.Index(text, "\n")]
			f := analyseLine(first)
			li = &lineInfo{text: text, kind: f.kind, name: f.name, trig: f.trig, all: symbolsOf(text)}
			if f.kind == 3 {
				// a group of assertions (e.g. the contents of a constant map):
				// kept when any of its symbols is relevant
				li.kind, li.trig = 3, li.all
			} else if f.kind == 0 {
				li.kind = 0
			}
		}
		idx := len(s.infos)
		s.infos = append(s.infos, li)
		for _, t := range li.trig {
			s.bySym[t] = append(s.bySym[t], idx)
		}
	}
	for _, d := range vc.decls {
		add(d)
	}
	for _, l := range vc.lines {
		add(l)
	}
	vc.sl = s
	return s
}

// slice returns the kept lines (in order) among decls and lines[:prefixLen]
// for the given seed text (guard, goal, obligation-local lines).
func (s *slicer) slice(prefixLen int, seed string) []string {
	limit := s.ndecl + prefixLen
	relevant := map[string]bool{}
	keep := make([]bool, limit)
	var work []string
	push := func(sym string) {
		if !relevant[sym] {
			relevant[sym] = true
			work = append(work, sym)
		}
	}
	for _, sym := range symbolsOf(seed) {
		push(sym)
	}
	for len(work) > 0 {
		sym := work[len(work)-1]
		work = work[:len(work)-1]
		for _, idx := range s.bySym[sym] {
			if idx >= limit || keep[idx] {
				continue
			}
			keep[idx] = true
			for _, a := range s.infos[idx].all {
				push(a)
			}
		}
	}
	var out []string
	for i := 0; i < limit; i++ {
		li := s.infos[i]
		if li.kind == 0 || keep[i] {
			out = append(out, li.text)
		}
	}
	return out
}
