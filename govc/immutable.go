package main

import (
	"fmt"
	"strings"
)

// FrameFact records an assumed frame condition "new agrees with old on every
// object below wm (except excl)", so that it can be instantiated at exactly
// the references an obligation reads. (The quantified form stays in the
// context; the solvers find single instances by E-matching but give up on
// goals that need several of them at once.)
type FrameFact struct {
	newSym  string
	old     Term
	wm      Term
	guard   Term
	excl    []Term
	lineIdx int
}

func (vc *VC) recordFrame(newH, old Term, wm, guard Term, excl []Term) {
	vc.frameFacts = append(vc.frameFacts, &FrameFact{newSym: newH.S, old: old, wm: wm, guard: guard, excl: excl, lineIdx: len(vc.lines)})
}

// havocHeapKeepOld havocs a heap that a callee (or loop) may write. For heaps
// of types declared immutable the callee can only have written objects it
// allocated itself: everything that existed before keeps its value. This is
// the "objects are never written after construction" convention of the code
// base, listed as an assumption; the functions known to write such objects
// (Apply, Copy, phantom reification, executability propagation, the scanner)
// do so on fresh copies.
func (vc *VC) havocHeapKeepOld(st, pre *State, h string, pc Term) {
	vc.havocHeapKeepOldBelow(st, pre, h, pc, pre.wm)
}

// havocHeapKeepOldBelow: as havocHeapKeepOld, but only the objects below the
// watermark wm keep their values. A loop of the verified function may write
// the objects the function itself allocated before the loop (an entry under
// construction), so loops protect only what existed at function entry.
func (vc *VC) havocHeapKeepOldBelow(st, pre *State, h string, pc Term, wm Term) {
	info := vc.heapInfo[h]
	if info == nil {
		return
	}
	if !vc.specs.isImmutableHeap(h) || !hasPrefix(info.Sort, "(Array ") || vc.noKeepOld || (vc.contract != nil && vc.contract.Mutates) {
		vc.havocHeap(st, h)
		return
	}
	old := vc.heap(pre, h, info.Sort)
	vc.havocHeap(st, h)
	vc.assume(pc, vc.frameFormula(st.heaps[h], old, h, nil, wm))
	vc.recordFrame(st.heaps[h], old, wm, pc, nil)
	vc.assumes["objects of the types declared immutable in the contract files are written only while being constructed (callees modify only objects they allocate)"] = true
}

// frameInstances instantiates the recorded frame facts at the index terms of
// the selects that occur in the given text (and, transitively, in the
// instances themselves).
func (vc *VC) frameInstances(text string, prefixLen int) []string {
	if len(vc.frameFacts) == 0 {
		return nil
	}
	bySym := map[string][]*FrameFact{}
	for _, ff := range vc.frameFacts {
		if ff.lineIdx <= prefixLen {
			bySym[ff.newSym] = append(bySym[ff.newSym], ff)
		}
	}
	var out []string
	done := map[string]bool{}
	work := []string{text}
	for len(work) > 0 && len(out) < 400 {
		t := work[len(work)-1]
		work = work[:len(work)-1]
		for sym, ffs := range bySym {
			pat := "(select " + sym + " "
			from := 0
			for {
				k := strings.Index(t[from:], pat)
				if k < 0 {
					break
				}
				start := from + k + len(pat)
				end := sexprEnd(t, start)
				idx := strings.TrimSpace(t[start:end])
				from = end
				if strings.Contains(idx, "|q:") || idx == "fr" || idx == "er" {
					continue // bound variable
				}
				for _, ff := range ffs {
					key := ff.newSym + "@" + idx + "@" + ff.old.S
					if done[key] {
						continue
					}
					done[key] = true
					it := Term{idx, SInt}
					conds := []Term{le(tZero, it), lt(it, ff.wm)}
					for _, e := range ff.excl {
						conds = append(conds, not(eq(it, e)))
					}
					inst := fmt.Sprintf("(assert %s)", implies(ff.guard, implies(and(conds...), eq(sel(Term{ff.newSym, ff.old.Sort}, it), sel(ff.old, it)))).S)
					out = append(out, inst)
					work = append(work, inst)
				}
			}
		}
	}
	return out
}
