package main

// Interprocedural write-set analysis at heap-name granularity.

import (
	"go/types"
	"sort"
	"strings"

	"golang.org/x/tools/go/ssa"
)

type EffectSet struct {
	top          bool
	heaps        map[string]bool
	allocs       bool
	callsUnknown bool // calls function values / interface methods without contract
	why          string
}

// argHeaps adds the heaps reachable for writing through a value of type t
// (one level of pointers/slices).
func (vc *VC) argHeaps(t types.Type, e *EffectSet, depth int) {
	if depth > 2 {
		return
	}
	switch u := t.Underlying().(type) {
	case *types.Pointer:
		for _, h := range vc.zeroInitHeaps(u.Elem()) {
			e.heaps[h] = true
		}
		if st, ok := u.Elem().Underlying().(*types.Struct); ok {
			for i := 0; i < st.NumFields(); i++ {
				vc.argHeaps(st.Field(i).Type(), e, depth+1)
			}
		}
	case *types.Slice:
		e.heaps[elemHeapName(u.Elem())] = true
	case *types.Interface:
		// an interface may hide a pointer: unknown target
		if depth == 0 && !u.Empty() {
			return
		}
	}
}

func (e *EffectSet) sorted() []string {
	var out []string
	for h := range e.heaps {
		out = append(out, h)
	}
	sort.Strings(out)
	return out
}

func (e *EffectSet) union(o *EffectSet) bool {
	changed := false
	if o.top && !e.top {
		e.top = true
		e.why = o.why
		changed = true
	}
	if o.allocs && !e.allocs {
		e.allocs = true
		changed = true
	}
	if o.callsUnknown && !e.callsUnknown {
		e.callsUnknown = true
		changed = true
	}
	for h := range o.heaps {
		if !e.heaps[h] {
			e.heaps[h] = true
			changed = true
		}
	}
	return changed
}

type effectsCache struct {
	done map[*ssa.Function]*EffectSet
}

var purePackages = map[string]bool{
	"errors": true, "fmt": true, "strings": true, "strconv": true, "unicode": true, "unicode/utf8": true,
	"unicode/utf16": true, "path": true, "path/filepath": true, "math": true, "math/bits": true, "time": true,
	"bytes": true, "sync": true, "sync/atomic": true, "runtime": true, "hash/crc32": true, "encoding/hex": true,
	"golang.org/x/text/unicode/norm": true, "context": true, "reflect": true, "os/signal": true,
	"google.golang.org/protobuf/proto": true, "github.com/google/uuid": true, "encoding/base64": true,
}

// argOnlyPackages wrap the operating system: the only caller-visible memory
// they write is reachable from their arguments (buffers, result structs).
var argOnlyPackages = map[string]bool{
	"os": true, "syscall": true, "internal/poll": true, "golang.org/x/sys/unix": true, "io/fs": true,
	"internal/syscall/unix": true, "os/exec": true, "os/user": true, "net": true, "internal/testlog": true,
}

// pureExceptions are functions in otherwise pure packages that write through
// their arguments.
var pureExceptions = map[string]bool{
	"bytes.(*Buffer).Write": true, "strconv.AppendInt": true, "sync/atomic.StoreInt32": true,
	"fmt.Fprintf": true, "fmt.Fprint": true, "fmt.Fprintln": true, "fmt.Sscanf": true, "fmt.Fscanf": true, "fmt.Sscan": true,
	"sync/atomic.AddUint64": true, "sync/atomic.StoreUint64": true, "sync/atomic.CompareAndSwapUint64": true,
	"sync/atomic.AddInt64": true, "sync/atomic.StoreInt64": true, "sync/atomic.StoreUint32": true, "sync/atomic.AddUint32": true,
	"sync/atomic.CompareAndSwapUint32": true, "sync/atomic.CompareAndSwapInt32": true, "sync/atomic.AddInt32": true,
	"google.golang.org/protobuf/proto.Unmarshal": true, "google.golang.org/protobuf/proto.Merge": true, "google.golang.org/protobuf/proto.Reset": true,
	"reflect.Copy": true, "sync.(*Once).Do": true, "sync.(*Pool).Get": true,
}

func (vc *VC) effectsOf(f *ssa.Function) *EffectSet {
	return vc.specs.eff.compute(vc, f)
}

func (c *effectsCache) compute(vc *VC, f *ssa.Function) *EffectSet {
	if e, ok := c.done[f]; ok {
		return e
	}
	// collect the static call graph reachable from f
	var order []*ssa.Function
	seen := map[*ssa.Function]bool{}
	local := map[*ssa.Function]*EffectSet{}
	callees := map[*ssa.Function][]*ssa.Function{}
	var visit func(g *ssa.Function)
	visit = func(g *ssa.Function) {
		if seen[g] {
			return
		}
		seen[g] = true
		if _, ok := c.done[g]; ok {
			return
		}
		order = append(order, g)
		e, cs := vc.localEffects(g)
		local[g] = e
		callees[g] = cs
		for _, h := range cs {
			visit(h)
		}
	}
	visit(f)
	// fixpoint
	for changed := true; changed; {
		changed = false
		for _, g := range order {
			for _, h := range callees[g] {
				var he *EffectSet
				if d, ok := c.done[h]; ok {
					he = d
				} else {
					he = local[h]
				}
				if he != nil && local[g].union(he) {
					changed = true
				}
			}
		}
	}
	for _, g := range order {
		c.done[g] = local[g]
	}
	return c.done[f]
}

// localEffects returns the direct effects of g and its static callees.
func (vc *VC) localEffects(g *ssa.Function) (*EffectSet, []*ssa.Function) {
	e := &EffectSet{heaps: map[string]bool{}}
	name := funcName(g)
	if fc := vc.specs.contractFor(name); fc != nil {
		// ghosts assigned by the function's set clauses are part of its effect
		for _, n := range fc.setGhosts() {
			if gh := vc.specs.ghost(n); gh != nil && !gh.IsMap {
				e.heaps[gh.heapName()] = true
			}
		}
	}
	if fc := vc.specs.contractFor(name); fc != nil && (fc.Pure || fc.HasMod) {
		// declared write set: expressed as heap names
		if fc.HasMod {
			for _, h := range vc.modHeapNames(fc, g) {
				e.heaps[h] = true
			}
			e.allocs = true
		}
		return e, nil
	}
	pkgPath := ""
	if g.Pkg != nil {
		pkgPath = g.Pkg.Pkg.Path()
	} else if g.Object() != nil && g.Object().Pkg() != nil {
		pkgPath = g.Object().Pkg().Path()
	}
	if purePackages[pkgPath] && !pureExceptions[name] {
		e.allocs = true
		return e, nil
	}
	if argOnlyPackages[pkgPath] {
		// operating-system wrappers: their effect on memory the caller can
		// see is confined to what their arguments reach
		e.allocs = true
		for _, p := range g.Params {
			vc.argHeaps(p.Type(), e, 0)
		}
		return e, nil
	}
	if len(g.Blocks) == 0 {
		// Functions without a Go body (assembly, runtime intrinsics, system
		// calls): they can write Go memory only through the pointers and
		// slices they are handed.
		e.allocs = true
		for _, p := range g.Params {
			vc.argHeaps(p.Type(), e, 0)
		}
		return e, nil
	}
	var callees []*ssa.Function
	for _, b := range g.Blocks {
		for _, in := range b.Instrs {
			switch in := in.(type) {
			case *ssa.Store:
				root := addrRoot(in.Addr)
				if a, ok := root.(*ssa.Alloc); ok && isCellAlloc(a) {
					continue
				}
				if _, ok := root.(*ssa.FreeVar); ok {
					continue // captured cells are handled by havocCaptured
				}
				for _, h := range vc.storeHeaps(in.Addr) {
					e.heaps[h] = true
				}
			case *ssa.Alloc:
				if !isCellAlloc(in) {
					e.allocs = true
					for _, h := range vc.zeroInitHeaps(derefType(in.Type())) {
						e.heaps[h] = true
					}
				}
			case *ssa.MakeSlice:
				e.allocs = true
				e.heaps[elemHeapName(in.Type().Underlying().(*types.Slice).Elem())] = true
			case *ssa.MakeMap:
				e.allocs = true
				e.heaps[mapHasName(in.Type())], e.heaps[mapLenName(in.Type())] = true, true
			case *ssa.MakeChan, *ssa.MakeClosure, *ssa.MakeInterface:
				e.allocs = true
			case *ssa.Convert:
				if sl, ok := in.Type().Underlying().(*types.Slice); ok {
					e.allocs = true
					e.heaps[elemHeapName(sl.Elem())] = true
				}
				if b, ok := in.Type().Underlying().(*types.Basic); ok && b.Kind() == types.UnsafePointer {
					// memory handed to unsafe code / the kernel: the converted
					// object and everything reachable from the parameters may
					// be written
					vc.argHeaps(in.X.Type(), e, 0)
					for _, p := range g.Params {
						vc.argHeaps(p.Type(), e, 0)
					}
				}
			case *ssa.MapUpdate:
				mt := in.Map.Type()
				e.heaps[mapHasName(mt)], e.heaps[mapValName(mt)], e.heaps[mapLenName(mt)] = true, true, true
			case *ssa.Go:
				e.top = true
				if e.why == "" {
					e.why = "go statement in " + name
				}
			case ssa.CallInstruction:
				c := in.Common()
				if b, ok := c.Value.(*ssa.Builtin); ok {
					switch b.Name() {
					case "copy", "append":
						e.allocs = true
						e.heaps[elemHeapName(c.Args[0].Type().Underlying().(*types.Slice).Elem())] = true
					case "delete":
						mt := c.Args[0].Type()
						e.heaps[mapHasName(mt)], e.heaps[mapLenName(mt)] = true, true
					case "clear":
						e.top = true
					}
					continue
				}
				if c.IsInvoke() {
					if fc := vc.specs.contractFor(vc.specs.ifaceName(c)); fc != nil && (fc.Pure || fc.HasMod) {
						if fc.HasMod {
							vc.ifaceModHeaps(fc, c, e)
						}
						continue
					}
					e.top = true
					e.callsUnknown = true
					if e.why == "" {
						e.why = "interface call " + vc.specs.ifaceName(c) + " in " + name
					}
					continue
				}
				if callee := c.StaticCallee(); callee != nil {
					callees = append(callees, callee)
					continue
				}
				if mc, ok := c.Value.(*ssa.MakeClosure); ok {
					callees = append(callees, mc.Fn.(*ssa.Function))
					continue
				}
				if u, ok := c.Value.(*ssa.UnOp); ok {
					if a, ok := u.X.(*ssa.Alloc); ok {
						if mc := singleClosureStore(a); mc != nil {
							callees = append(callees, mc.Fn.(*ssa.Function))
							continue
						}
					}
				}
				if n := fieldFuncName(c.Value); n != "" {
					if fc := vc.specs.contractFor(n); fc != nil && (fc.Pure || fc.HasMod) {
						if fc.HasMod {
							vc.ifaceModHeaps(fc, c, e)
						}
						continue
					}
				}
				e.top = true
				e.callsUnknown = true
				if e.why == "" {
					e.why = "dynamic call in " + name
				}
			}
		}
	}
	// closures created here may run later via callees; count their effects too
	for _, an := range g.AnonFuncs {
		callees = append(callees, an)
	}
	return e, callees
}

// modHeapNames over-approximates a declared modifies clause by heap names,
// resolved against the callee's parameter types.
func (vc *VC) modHeapNames(fc *FuncContract, g *ssa.Function) []string {
	var out []string
	ptypes := map[string]types.Type{}
	for _, p := range g.Params {
		ptypes[p.Name()] = p.Type()
	}
	var typeOf func(x Expr) types.Type
	typeOf = func(x Expr) types.Type {
		switch x := x.(type) {
		case *EIdent:
			return ptypes[x.Name]
		case *EField:
			t := typeOf(x.X)
			if t == nil {
				return nil
			}
			st, ok := derefType(t).Underlying().(*types.Struct)
			if !ok {
				return nil
			}
			for i := 0; i < st.NumFields(); i++ {
				if st.Field(i).Name() == x.Name {
					return st.Field(i).Type()
				}
			}
		case *EIndex:
			t := typeOf(x.X)
			if t == nil {
				return nil
			}
			switch u := t.Underlying().(type) {
			case *types.Slice:
				return u.Elem()
			case *types.Map:
				return u.Elem()
			}
		}
		return nil
	}
	for _, l := range fc.Modifies {
		switch x := l.(type) {
		case *EField:
			if t := typeOf(x.X); t != nil {
				out = append(out, fieldHeapName(derefType(t), x.Name))
				continue
			}
			if id, ok := x.X.(*EIdent); ok && g.Pkg != nil {
				// "T.f": field f of every object of the struct type T
				if tn, ok := g.Pkg.Pkg.Scope().Lookup(id.Name).(*types.TypeName); ok {
					if _, isStruct := tn.Type().Underlying().(*types.Struct); isStruct {
						out = append(out, fieldHeapName(tn.Type(), x.Name))
						continue
					}
				}
				for _, imp := range g.Pkg.Pkg.Imports() {
					if imp.Name() == id.Name {
						out = append(out, globalName(imp.Path(), x.Name))
					}
				}
			}
		case *ESlice:
			if t := typeOf(x.X); t != nil {
				switch u := t.Underlying().(type) {
				case *types.Slice:
					out = append(out, elemHeapName(u.Elem()))
				case *types.Map:
					out = append(out, mapHasName(t), mapValName(t), mapLenName(t))
				}
			}
		case *EIndex:
			if id, ok := x.X.(*EIdent); ok {
				if gh := vc.specs.ghost(id.Name); gh != nil {
					out = append(out, gh.heapName())
				}
			}
		case *EIdent:
			if gh := vc.specs.ghost(x.Name); gh != nil {
				out = append(out, gh.heapName())
			} else if g.Pkg != nil {
				out = append(out, globalName(g.Pkg.Pkg.Path(), x.Name))
			}
		}
	}
	return out
}

// ifaceModHeaps over-approximates the write set of an interface-method
// contract by heap names: ghost state it names, and the element heaps of the
// slice arguments.
func (vc *VC) ifaceModHeaps(fc *FuncContract, c *ssa.CallCommon, e *EffectSet) {
	for _, l := range fc.Modifies {
		switch x := l.(type) {
		case *EIdent:
			if gh := vc.specs.ghost(x.Name); gh != nil {
				e.heaps[gh.heapName()] = true
			}
		case *EIndex:
			if id, ok := x.X.(*EIdent); ok {
				if gh := vc.specs.ghost(id.Name); gh != nil {
					e.heaps[gh.heapName()] = true
				}
			}
		case *ESlice:
			for _, a := range c.Args {
				if sl, ok := a.Type().Underlying().(*types.Slice); ok {
					e.heaps[elemHeapName(sl.Elem())] = true
				}
			}
		}
	}
}

// callEffects gives the effect set of one call instruction.
func (vc *VC) callEffects(fr *Frame, c *ssa.CallCommon) *EffectSet {
	e := &EffectSet{heaps: map[string]bool{}}
	if b, ok := c.Value.(*ssa.Builtin); ok {
		switch b.Name() {
		case "copy", "append":
			e.allocs = true
			e.heaps[elemHeapName(c.Args[0].Type().Underlying().(*types.Slice).Elem())] = true
		case "delete":
			mt := c.Args[0].Type()
			e.heaps[mapHasName(mt)], e.heaps[mapLenName(mt)] = true, true
		case "clear":
			e.top = true
		}
		return e
	}
	var callee *ssa.Function
	if c.IsInvoke() {
		if fc := vc.specs.contractFor(vc.specs.ifaceName(c)); fc != nil && (fc.Pure || fc.HasMod) {
			if fc.HasMod {
				vc.ifaceModHeaps(fc, c, e)
			}
			return e
		}
		e.top, e.callsUnknown = true, true
		return e
	}
	if fr != nil {
		if ci, ok := fr.closures[c.Value]; ok {
			callee = ci.fn
		}
	}
	if callee == nil {
		callee = c.StaticCallee()
	}
	if callee == nil {
		// a closure called through the local variable it was stored in (the
		// load may not have been translated yet when a loop's write set is
		// computed): the variable's only store names the closure
		if u, ok := c.Value.(*ssa.UnOp); ok {
			if a, ok := u.X.(*ssa.Alloc); ok {
				if mc := singleClosureStore(a); mc != nil {
					callee = mc.Fn.(*ssa.Function)
				}
			}
		}
	}
	return vc.effectsOfCall(fr, c, callee)
}

func (vc *VC) effectsOfCall(fr *Frame, c *ssa.CallCommon, callee *ssa.Function) *EffectSet {
	if c.IsInvoke() {
		return vc.callEffects(fr, c)
	}
	if callee == nil {
		if n := fieldFuncName(c.Value); n != "" {
			if fc := vc.specs.contractFor(n); fc != nil && (fc.Pure || fc.HasMod) {
				e := &EffectSet{heaps: map[string]bool{}}
				if fc.HasMod {
					vc.ifaceModHeaps(fc, c, e)
				}
				return e
			}
		}
		return &EffectSet{top: true, callsUnknown: true, heaps: map[string]bool{}}
	}
	return vc.effectsOf(callee)
}

var _ = strings.HasPrefix
