package main

// The contract language: lexer, expression parser and contract-file parser.
// Contracts live in comment-only Go files guarded by //go:build verif; every
// line starting with "//@" belongs to the language.

import (
	"fmt"
	"strconv"
	"strings"
)

// ---------------------------------------------------------------- expressions

type Expr interface{}

type EIdent struct{ Name string }
type EInt struct{ V string }
type EBool struct{ V bool }
type EStr struct{ V string }
type ENil struct{}
type EUn struct {
	Op string
	X  Expr
}
type EBin struct {
	Op   string
	X, Y Expr
}
type EField struct {
	X    Expr
	Name string
}
type EIndex struct{ X, I Expr }
type ESlice struct{ X, Lo, Hi Expr }
type ECall struct {
	Fn   string
	Args []Expr
}
type EQuant struct {
	Forall bool
	Var    string
	VarTyp string // "" / "int": integer variable; "string": string variable (map keys)
	Lo, Hi Expr // nil when unbounded
	Body   Expr
}

// varSort is the SMT sort of the bound variable.
func (q *EQuant) varSort() Sort {
	if q.VarTyp == "string" {
		return SStr
	}
	return SInt
}
// isRef: the bound variable ranges over the references of a struct type ("*T").
func (q *EQuant) isRef() bool { return strings.HasPrefix(q.VarTyp, "*") }

type ECond struct{ C, A, B Expr }

// EMethod is "x.Name(args)": a package-qualified function or macro when x is
// a package name, otherwise a call of a Go method on the value x.
type EMethod struct {
	X    Expr
	Name string
	Args []Expr
}

type tok struct {
	kind string // ident int str char op eof
	text string
	pos  int
}

type lexer struct {
	src  string
	toks []tok
}

var ops3 = []string{"<==>", "==>", "..", "::", "&&", "||", "==", "!=", "<=", ">=", "<<", ">>", "&^"}

func lex(src string) ([]tok, error) {
	var toks []tok
	i := 0
	for i < len(src) {
		c := src[i]
		switch {
		case c == ' ' || c == '\t' || c == '\n':
			i++
		case isIdentStart(c):
			j := i
			for j < len(src) && (isIdentStart(src[j]) || (src[j] >= '0' && src[j] <= '9') || src[j] == '$' || src[j] == '#') {
				j++
			}
			toks = append(toks, tok{"ident", src[i:j], i})
			i = j
		case c >= '0' && c <= '9':
			j := i
			for j < len(src) && (isIdentStart(src[j]) || (src[j] >= '0' && src[j] <= '9')) {
				j++
			}
			toks = append(toks, tok{"int", src[i:j], i})
			i = j
		case c == '"':
			j := i + 1
			for j < len(src) && src[j] != '"' {
				if src[j] == '\\' {
					j++
				}
				j++
			}
			if j >= len(src) {
				return nil, fmt.Errorf("unterminated string at %d", i)
			}
			s, err := strconv.Unquote(src[i : j+1])
			if err != nil {
				return nil, fmt.Errorf("bad string %s: %v", src[i:j+1], err)
			}
			toks = append(toks, tok{"str", s, i})
			i = j + 1
		case c == '\'':
			j := i + 1
			for j < len(src) && src[j] != '\'' {
				if src[j] == '\\' {
					j++
				}
				j++
			}
			if j >= len(src) {
				return nil, fmt.Errorf("unterminated char at %d", i)
			}
			r, _, _, err := strconv.UnquoteChar(src[i+1:j], '\'')
			if err != nil {
				return nil, fmt.Errorf("bad char: %v", err)
			}
			toks = append(toks, tok{"int", strconv.Itoa(int(r)), i})
			i = j + 1
		default:
			matched := false
			for _, op := range ops3 {
				if strings.HasPrefix(src[i:], op) {
					toks = append(toks, tok{"op", op, i})
					i += len(op)
					matched = true
					break
				}
			}
			if !matched {
				toks = append(toks, tok{"op", string(c), i})
				i++
			}
		}
	}
	toks = append(toks, tok{"eof", "", len(src)})
	return toks, nil
}

func isIdentStart(c byte) bool {
	// bytes >= 0x80 belong to multi-byte UTF-8 letters (Go identifiers such
	// as αTransitions)
	return c == '_' || (c >= 'a' && c <= 'z') || (c >= 'A' && c <= 'Z') || c >= 0x80
}

type parser struct {
	toks []tok
	p    int
	src  string
}

func parseExpr(src string) (Expr, error) {
	toks, err := lex(src)
	if err != nil {
		return nil, err
	}
	ps := &parser{toks: toks, src: src}
	e, err := ps.expr(0)
	if err != nil {
		return nil, err
	}
	if ps.peek().kind != "eof" {
		return nil, fmt.Errorf("unexpected %q at %d in %q", ps.peek().text, ps.peek().pos, src)
	}
	return e, nil
}

func (ps *parser) peek() tok { return ps.toks[ps.p] }
func (ps *parser) next() tok  { t := ps.toks[ps.p]; ps.p++; return t }
func (ps *parser) isOp(s string) bool {
	t := ps.peek()
	return t.kind == "op" && t.text == s
}
func (ps *parser) expect(s string) error {
	if !ps.isOp(s) {
		return fmt.Errorf("expected %q at %d, got %q in %q", s, ps.peek().pos, ps.peek().text, ps.src)
	}
	ps.p++
	return nil
}

// binary precedences; higher binds tighter.
var binPrec = map[string]int{
	"<==>": 1, "==>": 2, "||": 4, "&&": 5,
	"==": 6, "!=": 6, "<": 6, "<=": 6, ">": 6, ">=": 6,
	"+": 7, "-": 7, "|": 7, "^": 7,
	"*": 8, "/": 8, "%": 8, "&": 8, "<<": 8, ">>": 8, "&^": 8,
}

func (ps *parser) expr(minPrec int) (Expr, error) {
	lhs, err := ps.unary()
	if err != nil {
		return nil, err
	}
	for {
		t := ps.peek()
		if t.kind != "op" {
			break
		}
		if t.text == "?" && minPrec <= 3 {
			ps.next()
			a, err := ps.expr(3)
			if err != nil {
				return nil, err
			}
			if err := ps.expect(":"); err != nil {
				return nil, err
			}
			b, err := ps.expr(3)
			if err != nil {
				return nil, err
			}
			lhs = &ECond{lhs, a, b}
			continue
		}
		prec, ok := binPrec[t.text]
		if !ok || prec < minPrec {
			break
		}
		ps.next()
		nextMin := prec + 1
		if t.text == "==>" {
			nextMin = prec // right associative
		}
		rhs, err := ps.expr(nextMin)
		if err != nil {
			return nil, err
		}
		lhs = &EBin{t.text, lhs, rhs}
	}
	return lhs, nil
}

func (ps *parser) unary() (Expr, error) {
	t := ps.peek()
	if t.kind == "op" && (t.text == "!" || t.text == "-") {
		ps.next()
		x, err := ps.unary()
		if err != nil {
			return nil, err
		}
		return &EUn{t.text, x}, nil
	}
	if t.kind == "ident" && (t.text == "forall" || t.text == "exists") {
		ps.next()
		v := ps.next()
		if v.kind != "ident" {
			return nil, fmt.Errorf("quantifier variable expected at %d in %q", v.pos, ps.src)
		}
		q := &EQuant{Forall: t.text == "forall", Var: v.text}
		if ps.peek().kind == "ident" && (ps.peek().text == "string" || ps.peek().text == "int") {
			q.VarTyp = ps.next().text
		} else if ps.peek().kind == "op" && ps.peek().text == "*" {
			// "*T": the variable ranges over the references to objects of
			// the named struct type T of the contract's package
			ps.next()
			tn := ps.next()
			if tn.kind != "ident" {
				return nil, fmt.Errorf("type name expected after * at %d in %q", tn.pos, ps.src)
			}
			q.VarTyp = "*" + tn.text
		}
		if ps.peek().kind == "ident" && ps.peek().text == "in" {
			ps.next()
			lo, err := ps.expr(7)
			if err != nil {
				return nil, err
			}
			if err := ps.expect(".."); err != nil {
				return nil, err
			}
			hi, err := ps.expr(7)
			if err != nil {
				return nil, err
			}
			q.Lo, q.Hi = lo, hi
		}
		if err := ps.expect("::"); err != nil {
			return nil, err
		}
		body, err := ps.expr(0)
		if err != nil {
			return nil, err
		}
		q.Body = body
		return q, nil
	}
	return ps.postfix()
}

func (ps *parser) postfix() (Expr, error) {
	var e Expr
	t := ps.next()
	switch t.kind {
	case "int":
		v, err := strconv.ParseInt(t.text, 0, 64)
		if err != nil {
			u, err2 := strconv.ParseUint(t.text, 0, 64)
			if err2 != nil {
				// arbitrary-size decimal literal (e.g. 2^64)
				ok := len(t.text) > 0
				for _, ch := range t.text {
					if ch < '0' || ch > '9' {
						ok = false
					}
				}
				if !ok {
					return nil, fmt.Errorf("bad integer %q", t.text)
				}
				e = &EInt{t.text}
				break
			}
			e = &EInt{strconv.FormatUint(u, 10)}
		} else {
			e = &EInt{strconv.FormatInt(v, 10)}
		}
	case "str":
		e = &EStr{t.text}
	case "ident":
		switch t.text {
		case "true":
			e = &EBool{true}
		case "false":
			e = &EBool{false}
		case "nil":
			e = &ENil{}
		default:
			if ps.isOp("(") {
				ps.next()
				var args []Expr
				for !ps.isOp(")") {
					a, err := ps.expr(0)
					if err != nil {
						return nil, err
					}
					args = append(args, a)
					if ps.isOp(",") {
						ps.next()
					} else {
						break
					}
				}
				if err := ps.expect(")"); err != nil {
					return nil, err
				}
				e = &ECall{t.text, args}
			} else {
				e = &EIdent{t.text}
			}
		}
	case "op":
		if t.text == "(" {
			x, err := ps.expr(0)
			if err != nil {
				return nil, err
			}
			if err := ps.expect(")"); err != nil {
				return nil, err
			}
			e = x
		} else {
			return nil, fmt.Errorf("unexpected %q at %d in %q", t.text, t.pos, ps.src)
		}
	default:
		return nil, fmt.Errorf("unexpected end of expression in %q", ps.src)
	}
	for {
		if ps.isOp(".") {
			ps.next()
			n := ps.next()
			if n.kind != "ident" {
				return nil, fmt.Errorf("field name expected at %d in %q", n.pos, ps.src)
			}
			// qualified call pkg.F(args) or method call x.M(args)
			if ps.isOp("(") {
				ps.next()
				var args []Expr
				for !ps.isOp(")") {
					a, err := ps.expr(0)
					if err != nil {
						return nil, err
					}
					args = append(args, a)
					if ps.isOp(",") {
						ps.next()
					} else {
						break
					}
				}
				if err := ps.expect(")"); err != nil {
					return nil, err
				}
				e = &EMethod{X: e, Name: n.text, Args: args}
				continue
			}
			e = &EField{e, n.text}
			continue
		}
		if ps.isOp("[") {
			ps.next()
			if ps.isOp("*") {
				ps.next()
				if err := ps.expect("]"); err != nil {
					return nil, err
				}
				e = &ESlice{e, nil, nil}
				continue
			}
			var lo Expr
			var err error
			if !ps.isOp(":") && !ps.isOp("..") {
				lo, err = ps.expr(0)
				if err != nil {
					return nil, err
				}
			}
			if ps.isOp(":") || ps.isOp("..") {
				ps.next()
				var hi Expr
				if !ps.isOp("]") {
					hi, err = ps.expr(0)
					if err != nil {
						return nil, err
					}
				}
				if err := ps.expect("]"); err != nil {
					return nil, err
				}
				if lo == nil {
					lo = &EInt{"0"}
				}
				e = &ESlice{e, lo, hi}
				continue
			}
			if err := ps.expect("]"); err != nil {
				return nil, err
			}
			e = &EIndex{e, lo}
			continue
		}
		break
	}
	return e, nil
}

// ------------------------------------------------------------- contract files

type Clause struct {
	Kind  string // requires ensures invariant assume
	Label string
	Src   string
	E     Expr
}

type LoopSpec struct {
	Invariants []*Clause
	Modifies   []Expr // nil = not declared
	HasMod     bool
	ModFresh   bool // "loop N modifies fresh": besides the listed locations, objects allocated during this call may change
}

type FuncContract struct {
	Name      string // without package: "(*Buffer).Write"
	Pkg       string // short package path
	Requires  []*Clause
	Ensures   []*Clause
	Modifies  []Expr
	HasMod    bool
	Loops     map[int]*LoopSpec
	MayPanic  bool
	Mutates   bool // writes objects of "immutable" types that it did not allocate (in-place reducers, construction helpers)
	Opaque    bool // body not verified: contract is trusted
	Pure      bool // extern: no heap effect
	Deterministic bool // results are functions of the scalar/string arguments
	NoInline  bool
	InlineCalls bool
	Overflow  bool     // emit overflow obligations for signed arithmetic too
	Wraps     bool     // unsigned arithmetic wraps intentionally; no underflow obligations
	Fresh     []string // result names declared fresh (allocated by the call)
	Allocates []string // struct types whose new objects the call initialises; "*" = objects of any kind
	IsIface   bool
	IsExtern  bool
	Params    []string // for iface/extern contracts written with explicit parameter names
	Assumes   []*Clause
	Uses      []string // lemmas assumed at entry (proved separately)
	PostUses  []string // lemmas assumed at every return
	CallSites []*CallSiteSpec
	EntrySets []*CallSiteSpec // "at entry set g = E": ghost assignments at function entry
	Raw       []string
}

// merge adds the clauses of a second contract block for the same function
// (another file of the package) to fc.
func (fc *FuncContract) merge(o *FuncContract) {
	fc.Requires = append(fc.Requires, o.Requires...)
	fc.Ensures = append(fc.Ensures, o.Ensures...)
	fc.Assumes = append(fc.Assumes, o.Assumes...)
	fc.Modifies = append(fc.Modifies, o.Modifies...)
	fc.HasMod = fc.HasMod || o.HasMod
	for n, l := range o.Loops {
		if cur, ok := fc.Loops[n]; ok {
			cur.Invariants = append(cur.Invariants, l.Invariants...)
			cur.Modifies = append(cur.Modifies, l.Modifies...)
			cur.HasMod = cur.HasMod || l.HasMod
		} else {
			fc.Loops[n] = l
		}
	}
	fc.MayPanic = fc.MayPanic || o.MayPanic
	fc.Mutates = fc.Mutates || o.Mutates
	fc.Allocates = append(fc.Allocates, o.Allocates...)
	fc.Opaque = fc.Opaque || o.Opaque
	fc.Pure = fc.Pure || o.Pure
	fc.Deterministic = fc.Deterministic || o.Deterministic
	fc.NoInline = fc.NoInline || o.NoInline
	fc.InlineCalls = fc.InlineCalls || o.InlineCalls
	fc.Overflow = fc.Overflow || o.Overflow
	fc.Wraps = fc.Wraps || o.Wraps
	fc.Fresh = append(fc.Fresh, o.Fresh...)
	if len(fc.Params) == 0 {
		fc.Params = o.Params
	}
	fc.Uses = append(fc.Uses, o.Uses...)
	fc.PostUses = append(fc.PostUses, o.PostUses...)
	fc.CallSites = append(fc.CallSites, o.CallSites...)
	fc.EntrySets = append(fc.EntrySets, o.EntrySets...)
	fc.Raw = append(fc.Raw, o.Raw...)
}

// CallSiteSpec attaches an obligation to the k-th call of a callee inside a
// function: "at call NAME#K assert E".
type CallSiteSpec struct {
	Callee  string
	Ordinal int
	Clause  *Clause
	Let     string // "at call X let NAME = E": spec-level name bound after the call
	Target  string // "set" clauses: the scalar ghost that is assigned
}

// setGhosts names the ghosts this contract assigns with "set" clauses.
func (fc *FuncContract) setGhosts() []string {
	var out []string
	seen := map[string]bool{}
	for _, l := range [][]*CallSiteSpec{fc.EntrySets, fc.CallSites} {
		for _, cs := range l {
			if cs.Target != "" && !seen[cs.Target] {
				seen[cs.Target] = true
				out = append(out, cs.Target)
			}
		}
	}
	return out
}

// parseSet splits "g = E" of a set clause.
func parseSet(src string) (string, Expr, error) {
	k := strings.Index(src, "=")
	if k <= 0 || (k+1 < len(src) && src[k+1] == '=') {
		return "", nil, fmt.Errorf("set clause needs the form \"ghost = expr\": %q", src)
	}
	name := strings.TrimSpace(src[:k])
	e, err := parseExpr(strings.TrimSpace(src[k+1:]))
	return name, e, err
}

type Macro struct {
	Name   string
	Params []string
	Body   Expr
	Rec    bool // uninterpreted recursive spec function
	Def    bool // "spec def": like Rec, but the defining equation is only made available at ground uses (never under a binder)
	UF     bool // uninterpreted specification function (no body)
	Src    string
	PTypes []string
	RType  string
}

type Lemma struct {
	Name     string
	Pkg      string
	Params   []string
	PTypes   []string
	Requires []*Clause
	Ensures  []*Clause
	Induct   string
	Uses     []string
}

type PkgContracts struct {
	Pkg      string
	Funcs    map[string]*FuncContract
	Macros   map[string]*Macro
	Lemmas   map[string]*Lemma
	Order    []string
	Ghosts   []*Ghost
	Immutable []string
	Private  []string
	PkgInvs  []*Clause // facts about package-level variables: established by init, assumed elsewhere
	ChanInvs map[string][]*Clause // "Type.field" -> invariant over v
}

// Ghost is a specification-only global: a scalar ("int"/"bool") or a map
// from references/integers to a scalar ("map[int]int", "map[int]bool").
type Ghost struct {
	Name  string
	IsMap bool
	Elem  string // int | bool
	Counter bool // int-valued and only ever incremented by the contracts that mention it
}

var clauseKeywords = map[string]bool{
	"spec": true, "pred": true, "func": true, "iface": true, "extern": true, "lemma": true,
	"requires": true, "ensures": true, "modifies": true, "loop": true, "maypanic": true, "mutates": true,
	"opaque": true, "pure": true, "assume": true, "noinline": true, "overflow": true,
	"wraps": true, "fresh": true, "allocates": true, "at": true, "induction": true, "params": true,
	"ghost": true, "chaninv": true, "ufunc": true, "immutable": true, "inline": true, "uses": true, "postuses": true, "private": true, "deterministic": true, "pkginv": true,
}

// parseContractLines parses the "//@" lines of one package.
func parseContractLines(pkg string, lines []string) (*PkgContracts, error) {
	pc := &PkgContracts{Pkg: pkg, Funcs: map[string]*FuncContract{}, Macros: map[string]*Macro{}, Lemmas: map[string]*Lemma{}}
	// join continuation lines
	var stmts []string
	for _, l := range lines {
		body := strings.TrimPrefix(l, "//@")
		trim := strings.TrimSpace(body)
		if trim == "" || strings.HasPrefix(trim, "#") {
			continue
		}
		// strip trailing comment " // ..."
		if k := strings.Index(trim, " // "); k >= 0 {
			trim = strings.TrimSpace(trim[:k])
		}
		first := trim
		if k := strings.IndexAny(trim, " \t[("); k >= 0 {
			first = trim[:k]
		}
		if clauseKeywords[first] || len(stmts) == 0 {
			stmts = append(stmts, trim)
		} else {
			stmts[len(stmts)-1] += " " + trim
		}
	}
	var cur *FuncContract
	var curLemma *Lemma
	for _, s := range stmts {
		kw, rest := splitKeyword(s)
		switch kw {
		case "private":
			// struct types whose fields only this package's functions write
			pc.Private = append(pc.Private, strings.Fields(rest)...)
			cur, curLemma = nil, nil
		case "pkginv":
			label, src := splitLabel(rest)
			e, err := parseExpr(src)
			if err != nil {
				return nil, fmt.Errorf("%s: %s: %v", pkg, s, err)
			}
			pc.PkgInvs = append(pc.PkgInvs, &Clause{Kind: "pkginv", Label: labelOr(label, "pkginv"), Src: src, E: e})
			cur, curLemma = nil, nil
		case "immutable":
			pc.Immutable = append(pc.Immutable, strings.Fields(rest)...)
			cur, curLemma = nil, nil
		case "ghost":
			f := strings.Fields(rest)
			counter := false
			if len(f) == 3 && f[2] == "counter" {
				// a counter is only ever incremented: havocs keep it monotone
				counter, f = true, f[:2]
			}
			if len(f) != 2 {
				return nil, fmt.Errorf("%s: bad ghost declaration %q", pkg, s)
			}
			g := &Ghost{Name: f[0], Elem: f[1], Counter: counter}
			if strings.HasPrefix(f[1], "map[int]") {
				g.IsMap = true
				g.Elem = strings.TrimPrefix(f[1], "map[int]")
			}
			if g.Elem != "int" && g.Elem != "bool" && g.Elem != "string" {
				return nil, fmt.Errorf("%s: ghost %s: unsupported type %s", pkg, f[0], f[1])
			}
			pc.Ghosts = append(pc.Ghosts, g)
			cur, curLemma = nil, nil
		case "chaninv":
			// chaninv Type.field: E   (E over the transferred value v)
			k := strings.Index(rest, ":")
			if k < 0 {
				return nil, fmt.Errorf("%s: bad chaninv %q", pkg, s)
			}
			label, src := splitLabel(rest[k+1:])
			e, err := parseExpr(src)
			if err != nil {
				return nil, fmt.Errorf("%s: %s: %v", pkg, s, err)
			}
			if pc.ChanInvs == nil {
				pc.ChanInvs = map[string][]*Clause{}
			}
			key := strings.TrimSpace(rest[:k])
			pc.ChanInvs[key] = append(pc.ChanInvs[key], &Clause{Kind: "chaninv", Label: label, Src: src, E: e})
			cur, curLemma = nil, nil
		case "ufunc":
			name, params, ptypes, rtype, err := parseSig(rest)
			if err != nil {
				return nil, fmt.Errorf("%s: ufunc %s: %v", pkg, rest, err)
			}
			pc.Macros[name] = &Macro{Name: name, Params: params, PTypes: ptypes, RType: strings.TrimSpace(rtype), UF: true}
			cur, curLemma = nil, nil
		case "spec", "pred":
			m, err := parseMacro(kw, rest)
			if err != nil {
				return nil, fmt.Errorf("%s: %v", pkg, err)
			}
			pc.Macros[m.Name] = m
			cur, curLemma = nil, nil
		case "func", "iface", "extern":
			name := strings.TrimSpace(rest)
			curLemma = nil
			if prev, ok := pc.Funcs[name]; ok {
				// a second head for the same function continues its contract
				cur = prev
			} else {
				cur = &FuncContract{Name: name, Pkg: pkg, Loops: map[int]*LoopSpec{}, IsIface: kw == "iface", IsExtern: kw == "extern"}
				pc.Funcs[name] = cur
				pc.Order = append(pc.Order, name)
			}
		case "lemma":
			name, params, ptypes, _, err := parseSig(rest)
			if err != nil {
				return nil, fmt.Errorf("%s: lemma %s: %v", pkg, rest, err)
			}
			curLemma = &Lemma{Name: name, Pkg: pkg, Params: params, PTypes: ptypes}
			cur = nil
			pc.Lemmas[name] = curLemma
		case "induction":
			if curLemma == nil {
				return nil, fmt.Errorf("%s: induction outside lemma", pkg)
			}
			curLemma.Induct = strings.TrimSpace(rest)
		case "requires", "ensures", "assume":
			label, src := splitLabel(rest)
			e, err := parseExpr(src)
			if err != nil {
				return nil, fmt.Errorf("%s: %s: %v", pkg, s, err)
			}
			cl := &Clause{Kind: kw, Label: label, Src: src, E: e}
			if curLemma != nil {
				if kw == "requires" {
					curLemma.Requires = append(curLemma.Requires, cl)
				} else {
					curLemma.Ensures = append(curLemma.Ensures, cl)
				}
				continue
			}
			if cur == nil {
				return nil, fmt.Errorf("%s: clause outside func: %s", pkg, s)
			}
			switch kw {
			case "requires":
				cur.Requires = append(cur.Requires, cl)
			case "ensures":
				cur.Ensures = append(cur.Ensures, cl)
			case "assume":
				cur.Assumes = append(cur.Assumes, cl)
			}
		case "modifies":
			if cur == nil {
				return nil, fmt.Errorf("%s: modifies outside func", pkg)
			}
			locs, err := parseLocList(rest)
			if err != nil {
				return nil, fmt.Errorf("%s: %s: %v", pkg, s, err)
			}
			cur.Modifies = append(cur.Modifies, locs...)
			cur.HasMod = true
		case "loop":
			if cur == nil {
				return nil, fmt.Errorf("%s: loop outside func", pkg)
			}
			f := strings.Fields(rest)
			if len(f) < 2 {
				return nil, fmt.Errorf("%s: bad loop clause %q", pkg, s)
			}
			n, err := strconv.Atoi(f[0])
			if err != nil {
				return nil, fmt.Errorf("%s: bad loop ordinal in %q", pkg, s)
			}
			ls := cur.Loops[n]
			if ls == nil {
				ls = &LoopSpec{}
				cur.Loops[n] = ls
			}
			after := strings.TrimSpace(strings.TrimPrefix(strings.TrimSpace(rest), f[0]))
			kw2, rest2 := splitKeyword(after)
			switch kw2 {
			case "invariant":
				label, src := splitLabel(rest2)
				e, err := parseExpr(src)
				if err != nil {
					return nil, fmt.Errorf("%s: %s: %v", pkg, s, err)
				}
				ls.Invariants = append(ls.Invariants, &Clause{Kind: "invariant", Label: label, Src: src, E: e})
			case "modifies":
				if strings.TrimSpace(rest2) == "fresh" {
					// the loop writes only objects allocated during this call
					// (frame relative to the function's entry, not the loop's)
					ls.HasMod = true
					ls.ModFresh = true
					break
				}
				locs, err := parseLocList(rest2)
				if err != nil {
					return nil, fmt.Errorf("%s: %s: %v", pkg, s, err)
				}
				ls.Modifies = append(ls.Modifies, locs...)
				ls.HasMod = true
			default:
				return nil, fmt.Errorf("%s: bad loop clause %q", pkg, s)
			}
		case "at":
			// at call NAME#K assert[label] E
			if cur == nil {
				return nil, fmt.Errorf("%s: at outside func", pkg)
			}
			f := strings.Fields(rest)
			if len(f) >= 4 && f[0] == "entry" && f[1] == "set" {
				// at entry set g = E
				src := strings.TrimSpace(rest[strings.Index(rest, "set")+3:])
				name, e, err := parseSet(src)
				if err != nil {
					return nil, fmt.Errorf("%s: %s: %v", pkg, s, err)
				}
				cur.EntrySets = append(cur.EntrySets, &CallSiteSpec{Target: name, Clause: &Clause{Kind: "entryset", Src: src, E: e}})
				continue
			}
			if len(f) < 4 || f[0] != "call" {
				return nil, fmt.Errorf("%s: bad at clause %q", pkg, s)
			}
			callee := f[1]
			ord := 0
			if k := strings.LastIndex(callee, "#"); k >= 0 {
				ord, _ = strconv.Atoi(callee[k+1:])
				callee = callee[:k]
			}
			after := strings.TrimSpace(rest[strings.Index(rest, f[1])+len(f[1]):])
			kw2, rest2 := splitKeyword(after)
			if kw2 == "let" {
				// at call NAME#K let X = E: E is evaluated in the state right
				// after the call (argN, resultN available) and named X for
				// the clauses evaluated later on the same path
				k := strings.Index(rest2, "=")
				if k <= 0 {
					return nil, fmt.Errorf("%s: bad let clause %q", pkg, s)
				}
				lname := strings.TrimSpace(rest2[:k])
				src := strings.TrimSpace(rest2[k+1:])
				if lname == "" || strings.ContainsAny(lname, " \t[]().") {
					return nil, fmt.Errorf("%s: bad let name in %q", pkg, s)
				}
				e, err := parseExpr(src)
				if err != nil {
					return nil, fmt.Errorf("%s: %s: %v", pkg, s, err)
				}
				cur.CallSites = append(cur.CallSites, &CallSiteSpec{Callee: callee, Ordinal: ord, Let: lname, Clause: &Clause{Kind: "calllet", Src: "let " + lname + " = " + src, E: e}})
				continue
			}
			if kw2 == "set" {
				// at call NAME#K set g = E (ghost assignment after the call)
				name, e, err := parseSet(rest2)
				if err != nil {
					return nil, fmt.Errorf("%s: %s: %v", pkg, s, err)
				}
				cur.CallSites = append(cur.CallSites, &CallSiteSpec{Callee: callee, Ordinal: ord, Target: name, Clause: &Clause{Kind: "callset", Src: rest2, E: e}})
				continue
			}
			if kw2 != "assert" && kw2 != "assume" {
				return nil, fmt.Errorf("%s: bad at clause %q", pkg, s)
			}
			label, src := splitLabel(rest2)
			e, err := parseExpr(src)
			if err != nil {
				return nil, fmt.Errorf("%s: %s: %v", pkg, s, err)
			}
			kind := "callsite"
			if kw2 == "assume" {
				kind = "callassume" // trusted fact about the state after the call
			}
			cur.CallSites = append(cur.CallSites, &CallSiteSpec{Callee: callee, Ordinal: ord, Clause: &Clause{Kind: kind, Label: label, Src: src, E: e}})
		case "mutates":
			cur.Mutates = true
		case "maypanic":
			cur.MayPanic = true
		case "opaque":
			cur.Opaque = true
		case "pure":
			cur.Pure = true
		case "deterministic":
			// a pure function of its (scalar / string) arguments: calls with
			// equal arguments return equal results
			cur.Pure = true
			cur.Deterministic = true
		case "postuses":
			// lemmas assumed at every return (in the final state)
			if cur != nil {
				cur.PostUses = append(cur.PostUses, splitTop(rest)...)
			}
		case "uses":
			for _, n := range splitTop(rest) {
				if curLemma != nil {
					curLemma.Uses = append(curLemma.Uses, strings.TrimSpace(n))
				} else if cur != nil {
					cur.Uses = append(cur.Uses, strings.TrimSpace(n))
				}
			}
		case "noinline":
			cur.NoInline = true
		case "inline":
			// callers translate the body instead of using the contract
			cur.InlineCalls = true
		case "overflow":
			cur.Overflow = true
		case "wraps":
			cur.Wraps = true
		case "fresh":
			for _, n := range strings.Split(rest, ",") {
				cur.Fresh = append(cur.Fresh, strings.TrimSpace(n))
			}
		case "allocates":
			if strings.TrimSpace(rest) == "" {
				cur.Allocates = append(cur.Allocates, "*")
			}
			for _, n := range strings.FieldsFunc(rest, func(r rune) bool { return r == ',' || r == ' ' }) {
				cur.Allocates = append(cur.Allocates, n)
			}
		case "params":
			for _, n := range strings.Split(rest, ",") {
				cur.Params = append(cur.Params, strings.TrimSpace(n))
			}
		default:
			return nil, fmt.Errorf("%s: unknown directive %q", pkg, s)
		}
	}
	return pc, nil
}

func splitKeyword(s string) (string, string) {
	s = strings.TrimSpace(s)
	k := strings.IndexAny(s, " \t[")
	if k < 0 {
		return s, ""
	}
	if s[k] == '[' {
		return s[:k], s[k:]
	}
	return s[:k], strings.TrimSpace(s[k:])
}

func splitLabel(s string) (string, string) {
	s = strings.TrimSpace(s)
	if strings.HasPrefix(s, "[") {
		if k := strings.Index(s, "]"); k > 0 {
			return s[1:k], strings.TrimSpace(s[k+1:])
		}
	}
	return "", s
}

// parseSig parses "name(p1 T1, p2 T2) RT" and returns the rest after it.
func parseSig(s string) (name string, params, ptypes []string, rest string, err error) {
	op := strings.Index(s, "(")
	if op < 0 {
		return "", nil, nil, "", fmt.Errorf("missing ( in %q", s)
	}
	name = strings.TrimSpace(s[:op])
	depth := 0
	cl := -1
	for i := op; i < len(s); i++ {
		if s[i] == '(' {
			depth++
		} else if s[i] == ')' {
			depth--
			if depth == 0 {
				cl = i
				break
			}
		}
	}
	if cl < 0 {
		return "", nil, nil, "", fmt.Errorf("missing ) in %q", s)
	}
	plist := strings.TrimSpace(s[op+1 : cl])
	if plist != "" {
		var pending []string
		for _, p := range strings.Split(plist, ",") {
			f := strings.Fields(strings.TrimSpace(p))
			if len(f) == 0 {
				return "", nil, nil, "", fmt.Errorf("empty parameter in %q", s)
			}
			params = append(params, f[0])
			if len(f) > 1 {
				ty := strings.Join(f[1:], " ")
				for range pending {
					ptypes = append(ptypes, ty)
				}
				pending = nil
				ptypes = append(ptypes, ty)
			} else {
				pending = append(pending, f[0])
			}
		}
		for range pending {
			ptypes = append(ptypes, "int")
		}
	}
	return name, params, ptypes, strings.TrimSpace(s[cl+1:]), nil
}

func parseMacro(kind, s string) (*Macro, error) {
	rec, def := false, false
	if strings.HasPrefix(s, "rec ") {
		rec = true
		s = strings.TrimSpace(s[4:])
	} else if strings.HasPrefix(s, "def ") {
		// an opaque definition: an uninterpreted function whose defining
		// equation is unfolded once at every ground use and not at all at
		// uses that mention bound variables
		rec, def = true, true
		s = strings.TrimSpace(s[4:])
	}
	name, params, ptypes, rest, err := parseSig(s)
	if err != nil {
		return nil, err
	}
	eq := strings.Index(rest, "=")
	if eq < 0 {
		return nil, fmt.Errorf("missing = in %q", s)
	}
	rtype := strings.TrimSpace(rest[:eq])
	if kind == "pred" {
		rtype = "bool"
	}
	body, err := parseExpr(rest[eq+1:])
	if err != nil {
		return nil, fmt.Errorf("%s: %v", name, err)
	}
	return &Macro{Name: name, Params: params, PTypes: ptypes, RType: rtype, Body: body, Rec: rec, Def: def, Src: rest[eq+1:]}, nil
}

func parseLocList(s string) ([]Expr, error) {
	var out []Expr
	depth := 0
	start := 0
	flush := func(end int) error {
		part := strings.TrimSpace(s[start:end])
		if part == "" {
			return nil
		}
		e, err := parseExpr(part)
		if err != nil {
			return err
		}
		out = append(out, e)
		return nil
	}
	for i := 0; i < len(s); i++ {
		switch s[i] {
		case '(', '[':
			depth++
		case ')', ']':
			depth--
		case ',':
			if depth == 0 {
				if err := flush(i); err != nil {
					return nil, err
				}
				start = i + 1
			}
		}
	}
	if err := flush(len(s)); err != nil {
		return nil, err
	}
	return out, nil
}

// splitTop splits a comma-separated list, ignoring commas inside brackets.
func splitTop(s string) []string {
	var out []string
	depth, start := 0, 0
	for i := 0; i < len(s); i++ {
		switch s[i] {
		case '(', '[':
			depth++
		case ')', ']':
			depth--
		case ',':
			if depth == 0 {
				out = append(out, strings.TrimSpace(s[start:i]))
				start = i + 1
			}
		}
	}
	if t := strings.TrimSpace(s[start:]); t != "" {
		out = append(out, t)
	}
	return out
}
