package main

// Translation of one SSA function body (top-level or inlined) into the
// passified form: named values, guarded assumptions and obligations.

import (
	"os"
	"fmt"
	"go/constant"
	"go/token"
	"go/types"
	"math/big"
	"sort"
	"strings"

	"golang.org/x/tools/go/ssa"
)

type retInfo struct {
	guard   Term
	st      *State
	results []Term
}

type closureInfo struct {
	fn       *ssa.Function
	bindings []ssa.Value
}

type Frame struct {
	vc           *VC
	fn           *ssa.Function
	id           int
	parent       *Frame
	depth        int
	vals         map[ssa.Value]Term
	tuples       map[ssa.Value][]Term
	locs         map[ssa.Value]*Loc
	closures     map[ssa.Value]*closureInfo
	allocsByName map[string][]*ssa.Alloc
	csMatched      map[*CallSiteSpec]bool // call-site clauses that matched at least one call
	pendingArgLocs map[int]*Loc // interior-address arguments of the call being translated
	argLocsUsed    bool         // the callee was inlined and bound them
	curRangeIdx  *ssa.Alloc // hidden index of the loop whose invariants are being evaluated
	curMapRange  *ssa.Range // map range of the loop whose invariants are being evaluated (visited(k))
	cellAlloc    map[*ssa.Alloc]bool
	params       []Term
	entry        *State
	top          bool
	rets         []retInfo
	contract     *FuncContract
	callOrd      map[string]int
	blockIdx     map[*ssa.BasicBlock]int
	pcs          map[*ssa.BasicBlock]Term
	ends         map[*ssa.BasicBlock]*State
	loops        map[*ssa.BasicBlock]*loopInfo
	freeLocs     map[*ssa.FreeVar]*Loc // inlined closures: free variable -> outer location
	retCount     int
	rangeMaps    map[ssa.Value]ssa.Value
	lastCallee   string
	lastArgs     []Term       // arguments of the most recent call (for "at call ... assume" clauses)
	lastArgTypes []types.Type
	lastOrd      int
	letTypes     map[string]types.Type // Go types of the names bound by "at call ... let"
	letSorts     map[string]Sort
}

var frameCounter int

func (vc *VC) newFrame(fn *ssa.Function, parent *Frame) *Frame {
	frameCounter++
	fr := &Frame{vc: vc, fn: fn, id: frameCounter, parent: parent,
		vals: map[ssa.Value]Term{}, tuples: map[ssa.Value][]Term{}, locs: map[ssa.Value]*Loc{},
		closures: map[ssa.Value]*closureInfo{}, allocsByName: map[string][]*ssa.Alloc{}, csMatched: map[*CallSiteSpec]bool{}, cellAlloc: map[*ssa.Alloc]bool{},
		callOrd: map[string]int{}, blockIdx: map[*ssa.BasicBlock]int{}, pcs: map[*ssa.BasicBlock]Term{}, ends: map[*ssa.BasicBlock]*State{},
		freeLocs: map[*ssa.FreeVar]*Loc{}, rangeMaps: map[ssa.Value]ssa.Value{}}
	if parent != nil {
		fr.depth = parent.depth + 1
	}
	for _, b := range fn.Blocks {
		for _, in := range b.Instrs {
			if a, ok := in.(*ssa.Alloc); ok {
				if a.Comment != "" {
					fr.allocsByName[a.Comment] = append(fr.allocsByName[a.Comment], a)
				}
				fr.cellAlloc[a] = isCellAlloc(a)
			}
		}
	}
	return fr
}

// isCellAlloc reports whether a local variable can be modelled as a cell of
// the symbolic store: its address is only loaded from, stored to, projected
// or captured by closures of this function.
func isCellAlloc(a *ssa.Alloc) bool {
	var ok func(v ssa.Value, depth int) bool
	ok = func(v ssa.Value, depth int) bool {
		refs := v.Referrers()
		if refs == nil {
			return false
		}
		for _, r := range *refs {
			switch r := r.(type) {
			case *ssa.Store:
				if r.Addr != v {
					return false // the address itself is stored somewhere
				}
			case *ssa.UnOp:
				if r.Op != token.MUL {
					return false
				}
			case *ssa.FieldAddr:
				if !ok(r, depth+1) {
					return false
				}
			case *ssa.IndexAddr:
				if r.X != v || !ok(r, depth+1) {
					return false
				}
			case *ssa.DebugRef:
			case *ssa.MakeClosure:
				if depth > 0 {
					return false
				}
			default:
				return false
			}
		}
		return true
	}
	return ok(a, 0)
}

func (fr *Frame) name(v ssa.Value) string {
	return fmt.Sprintf("f%d:%s", fr.id, v.Name())
}

func (fr *Frame) setVal(v ssa.Value, t Term) {
	fr.vals[v] = fr.vc.def(fr.name(v), t)
}

// val returns the SMT term of an SSA value.
func (fr *Frame) val(v ssa.Value) Term {
	if t, ok := fr.vals[v]; ok {
		return t
	}
	vc := fr.vc
	switch v := v.(type) {
	case *ssa.Const:
		return fr.constVal(v)
	case *ssa.Function:
		return vc.funcIdent(v)
	case *ssa.Global, *ssa.FreeVar:
		vc.warn("%s: address of %s used as a value", fr.fn.Name(), v.Name())
		return vc.fresh("addr", SInt)
	case *ssa.Builtin:
		return tZero
	}
	if _, ok := fr.locs[v]; ok {
		// an interior address escapes: give it an opaque identity
		vc.warn("%s: interior address %s used as a value", fr.fn.Name(), v.Name())
		t := vc.fresh("addr", SInt)
		fr.vals[v] = t
		return t
	}
	if fr.parent != nil {
		// values of the enclosing frame referenced by an inlined closure never
		// appear directly (they go through free variables), so this is a bug.
	}
	vc.warn("%s: value %s (%T) has no translation; havoc", fr.fn.Name(), v.Name(), v)
	t := vc.fresh("unk:"+v.Name(), vc.sortOf(v.Type()))
	fr.vals[v] = t
	return t
}

func (vc *VC) funcIdent(f *ssa.Function) Term {
	name := quote("fn:" + funcName(f))
	vc.declare("fn:"+name, fmt.Sprintf("(declare-const %s Int)\n(assert (> %s 0))", name, name))
	return Term{name, SInt}
}

func (fr *Frame) constVal(c *ssa.Const) Term {
	vc := fr.vc
	if c.Value == nil {
		return vc.zero(c.Type())
	}
	switch c.Value.Kind() {
	case constant.Bool:
		if constant.BoolVal(c.Value) {
			return tTrue
		}
		return tFalse
	case constant.Int:
		if isFloatType(c.Type()) {
			return Term{c.Value.ExactString() + ".0", SReal}
		}
		if i, ok := constant.Int64Val(c.Value); ok {
			return intLit(i)
		}
		n, _ := new(big.Int).SetString(c.Value.ExactString(), 10)
		if n != nil {
			return bigLit(n)
		}
	case constant.String:
		return vc.strConst(constant.StringVal(c.Value))
	case constant.Float:
		return vc.fresh("float", SReal)
	}
	return vc.fresh("const", vc.sortOf(c.Type()))
}

func isFloatType(t types.Type) bool {
	b, ok := t.Underlying().(*types.Basic)
	return ok && b.Info()&types.IsFloat != 0
}

func derefType(t types.Type) types.Type {
	if p, ok := t.Underlying().(*types.Pointer); ok {
		return p.Elem()
	}
	return t
}

func (vc *VC) globalLoc(pkg, name string, typ types.Type) *Loc {
	return &Loc{kind: "global", heap: globalName(pkg, name), hsort: vc.sortOf(typ), root: typ, typ: typ}
}

// addr resolves a pointer-typed SSA value that is about to be dereferenced.
func (fr *Frame) addr(v ssa.Value) *Loc {
	if l, ok := fr.locs[v]; ok {
		return l
	}
	vc := fr.vc
	switch g := v.(type) {
	case *ssa.Global:
		elem := derefType(g.Type())
		return vc.globalLoc(g.Pkg.Pkg.Path(), g.Name(), elem)
	case *ssa.FreeVar:
		if l, ok := fr.freeLocs[g]; ok {
			return l
		}
		elem := derefType(g.Type())
		return &Loc{kind: "cell", cell: g, root: elem, typ: elem}
	}
	return vc.refLoc(fr.val(v), derefType(v.Type()))
}

// refLoc is the location designated by a first-class reference value.
func (vc *VC) refLoc(ref Term, elem types.Type) *Loc {
	switch u := elem.Underlying().(type) {
	case *types.Struct:
		return &Loc{kind: "structref", ref: ref, root: elem, typ: elem}
	case *types.Array:
		// heap arrays keep their elements in the element heap, keyed by the reference
		return &Loc{kind: "ptr", ref: ref, heap: elemHeapName(u.Elem()), hsort: arraySort(SInt, arraySort(SInt, vc.sortOf(u.Elem()))), root: elem, typ: elem}
	}
	return &Loc{kind: "ptr", ref: ref, heap: ptrHeapName(elem), hsort: arraySort(SInt, vc.sortOf(elem)), root: elem, typ: elem}
}

func (fr *Frame) loadLoc(st *State, l *Loc, guard Term) Term {
	vc := fr.vc
	if l.kind == "structref" {
		v := vc.loadStructAt(st, l.typ, l.ref)
		return v
	}
	v := vc.load(st, l)
	if l.kind != "cell" {
		v = vc.def("ld", v)
		vc.assume(guard, vc.typeFacts(v, l.typ, st.wm))
	}
	return v
}

func (fr *Frame) storeToLoc(st *State, l *Loc, v Term) {
	if l.kind == "structref" {
		fr.vc.storeStructAt(st, l.typ, l.ref, v)
		return
	}
	fr.vc.storeLoc(st, l, v)
}

// nilCheck emits the obligation that a reference about to be dereferenced is
// not nil.
func (fr *Frame) nilCheck(l *Loc, guard Term, what string) {
	if l.kind == "field" || l.kind == "ptr" || l.kind == "structref" {
		fr.vc.oblige("nil", "safety", what, guard, not(eq(l.ref, tZero)), "nil dereference: "+what)
		// execution continues past a dereference only if it did not panic
		fr.vc.assume(guard, not(eq(l.ref, tZero)))
	}
}

// ---------------------------------------------------------------- block walk

// rpo returns the blocks in reverse post-order, which for the reducible
// graphs go/ssa produces visits all forward predecessors first.
func rpo(fn *ssa.Function) []*ssa.BasicBlock {
	seen := map[*ssa.BasicBlock]bool{}
	var post []*ssa.BasicBlock
	var dfs func(b *ssa.BasicBlock)
	dfs = func(b *ssa.BasicBlock) {
		seen[b] = true
		for _, s := range b.Succs {
			if !seen[s] {
				dfs(s)
			}
		}
		post = append(post, b)
	}
	if len(fn.Blocks) > 0 {
		dfs(fn.Blocks[0])
	}
	for i, j := 0, len(post)-1; i < j; i, j = i+1, j-1 {
		post[i], post[j] = post[j], post[i]
	}
	return post
}

func isBackEdge(from, to *ssa.BasicBlock) bool {
	return to.Dominates(from)
}

func (fr *Frame) edgeCond(from, to *ssa.BasicBlock, succIdx int) Term {
	pc := fr.pcs[from]
	last := from.Instrs[len(from.Instrs)-1]
	if iff, ok := last.(*ssa.If); ok {
		c := fr.val(iff.Cond)
		if from.Succs[0] == from.Succs[1] {
			return pc
		}
		if succIdx == 0 {
			return and(pc, c)
		}
		return and(pc, not(c))
	}
	return pc
}

// run translates the body starting from the given state and path condition.
func (fr *Frame) run(st0 *State, pc0 Term) {
	vc := fr.vc
	fn := fr.fn
	order := rpo(fn)
	for i, b := range order {
		fr.blockIdx[b] = i
	}
	fr.findLoops(order)
	for _, b := range order {
		var st *State
		var pc Term
		if b == fn.Blocks[0] {
			st, pc = st0, pc0
		} else {
			var preds []*State
			var conds []Term
			for _, p := range b.Preds {
				if isBackEdge(p, b) {
					continue
				}
				ps, ok := fr.ends[p]
				if !ok {
					continue
				}
				for si, s := range p.Succs {
					if s == b {
						preds = append(preds, ps)
						conds = append(conds, fr.edgeCond(p, b, si))
						if p.Succs[0] == p.Succs[len(p.Succs)-1] {
							break
						}
					}
				}
			}
			if len(preds) == 0 {
				if os.Getenv("GOVC_DEBUG") != "" {
					fmt.Fprintf(os.Stderr, "debug: %s block %d (%s) has no processed predecessor\n", fn.Name(), b.Index, b.Comment)
				}
				continue // unreachable
			}
			pc = vc.def(fmt.Sprintf("pc:f%d:b%d", fr.id, b.Index), or(conds...))
			st = vc.mergeStates(preds, conds, fmt.Sprintf("f%d:b%d", fr.id, b.Index))
		}
		fr.pcs[b] = pc
		if os.Getenv("GOVC_DEBUG") != "" && pc.S == "false" {
			fmt.Fprintf(os.Stderr, "debug: %s block %d (%s) pc=false\n", fn.Name(), b.Index, b.Comment)
		}
		if li := fr.loops[b]; li != nil {
			st = fr.enterLoop(li, st, pc)
		}
		for _, in := range b.Instrs {
			fr.instr(in, st, pc, b)
			if os.Getenv("GOVC_DEBUG") != "" {
				for n, t := range st.heaps {
					if hi := vc.heapInfo[n]; hi != nil && hi.Sort != t.Sort {
						fmt.Fprintf(os.Stderr, "debug: %s: after %s: heap %s has sort %s, declared %s\n", fn.Name(), in.String(), n, t.Sort, hi.Sort)
					}
				}
			}
		}
		fr.ends[b] = st
		// back edges leaving this block: invariant preservation
		for si, s := range b.Succs {
			if isBackEdge(b, s) {
				if li := fr.loops[s]; li != nil {
					fr.backEdge(li, st, fr.edgeCond(b, s, si))
				}
				if b.Succs[0] == b.Succs[len(b.Succs)-1] {
					break
				}
				_ = si
			}
		}
	}
}

// mergeStates joins predecessor states under their (mutually exclusive) edge
// conditions.
func (vc *VC) mergeStates(preds []*State, conds []Term, tag string) *State {
	if len(preds) == 1 {
		return preds[0].clone()
	}
	out := &State{cells: map[ssa.Value]Term{}, heaps: map[string]Term{}}
	// cells live in some predecessor: along edges from predecessors in which
	// the cell was never allocated its value is left unconstrained (the
	// variable is out of scope on those paths)
	var keys []ssa.Value
	seen := map[ssa.Value]bool{}
	for _, p := range preds {
		for k := range p.cells {
			if !seen[k] {
				seen[k] = true
				keys = append(keys, k)
			}
		}
	}
	sort.Slice(keys, func(i, j int) bool { return valueKey(keys[i]) < valueKey(keys[j]) })
	for _, k := range keys {
		var vs, cs []Term
		for i, p := range preds {
			if v, ok := p.cells[k]; ok {
				vs = append(vs, v)
				cs = append(cs, conds[i])
			}
		}
		if len(vs) == len(preds) {
			out.cells[k] = vc.mergeTerms(vs, cs, "m:"+tag+":"+k.Name())
			continue
		}
		m := vc.fresh("m:"+tag+":"+k.Name(), vs[0].Sort)
		for i, v := range vs {
			vc.assume(cs[i], eq(m, v))
		}
		out.cells[k] = m
	}
	names := map[string]bool{}
	for _, p := range preds {
		for n := range p.heaps {
			names[n] = true
		}
	}
	var hn []string
	for n := range names {
		hn = append(hn, n)
	}
	sort.Strings(hn)
	for _, n := range hn {
		var vs []Term
		for _, p := range preds {
			info := vc.heapInfo[n]
			vs = append(vs, vc.heap(p, n, info.Sort))
		}
		out.heaps[n] = vc.mergeTerms(vs, conds, "mh:"+tag)
	}
	var ws []Term
	for _, p := range preds {
		ws = append(ws, p.wm)
	}
	out.wm = vc.mergeTerms(ws, conds, "mwm:"+tag)
	return out
}

func valueKey(v ssa.Value) string {
	if in, ok := v.(ssa.Instruction); ok && in.Block() != nil {
		return fmt.Sprintf("%s/%04d/%s", in.Parent().Name(), in.Block().Index, v.Name())
	}
	return v.Name()
}

func (vc *VC) mergeTerms(vs []Term, conds []Term, base string) Term {
	same := true
	for _, v := range vs[1:] {
		if v.S != vs[0].S {
			same = false
			break
		}
	}
	if same {
		return vs[0]
	}
	m := vc.fresh(base, vs[0].Sort)
	for i, v := range vs {
		vc.assume(conds[i], eq(m, v))
	}
	return m
}

// ------------------------------------------------------------- instructions

func (fr *Frame) instr(in ssa.Instruction, st *State, pc Term, b *ssa.BasicBlock) {
	vc := fr.vc
	vc.curSt = st
	switch in := in.(type) {
	case *ssa.DebugRef:
	case *ssa.Alloc:
		elem := derefType(in.Type())
		if fr.cellAlloc[in] {
			st.cells[in] = vc.zero(elem)
			fr.locs[in] = &Loc{kind: "cell", cell: in, root: elem, typ: elem}
			return
		}
		ref := vc.allocRef(st, pc)
		fr.vals[in] = ref
		vc.assumeRType(pc, ref, elem)
		l := vc.refLoc(ref, elem)
		fr.storeToLoc(st, l, vc.zero(elem))
	case *ssa.Store:
		l := fr.addr(in.Addr)
		fr.nilCheck(l, pc, "store")
		fr.storeToLoc(st, l, fr.val(in.Val))
	case *ssa.UnOp:
		fr.unop(in, st, pc)
	case *ssa.BinOp:
		fr.setVal(in, fr.binop(in, st, pc))
	case *ssa.FieldAddr:
		fr.fieldAddr(in, st, pc)
	case *ssa.Field:
		x := fr.val(in.X)
		stt := in.X.Type().Underlying().(*types.Struct)
		f := stt.Field(in.Field)
		fr.setVal(in, Term{"(" + structSel(in.X.Type(), f.Name(), in.Field) + " " + x.S + ")", vc.sortOf(f.Type())})
	case *ssa.IndexAddr:
		fr.indexAddr(in, st, pc)
	case *ssa.Index:
		x := fr.val(in.X)
		idx := fr.val(in.Index)
		switch u := in.X.Type().Underlying().(type) {
		case *types.Array:
			vc.oblige("bounds", "safety", "index", pc, and(le(tZero, idx), lt(idx, intLit(u.Len()))), "array index in range")
			fr.setVal(in, sel(x, idx))
		case *types.Basic: // string
			vc.oblige("bounds", "safety", "strindex", pc, and(le(tZero, idx), lt(idx, T(SInt, "(slen %s)", x.S))), "string index in range")
			v := vc.def(fr.name(in), T(SInt, "(sat %s %s)", x.S, idx.S))
			vc.assume(pc, and(le(tZero, v), le(v, intLit(255))))
			fr.vals[in] = v
		default:
			fr.unsupported(in, st, pc, "Index on "+in.X.Type().String())
		}
	case *ssa.Slice:
		fr.sliceOp(in, st, pc)
	case *ssa.Phi:
		var vs, cs []Term
		for i, e := range in.Edges {
			p := b.Preds[i]
			if _, ok := fr.ends[p]; !ok {
				continue
			}
			si := 0
			for k, s := range p.Succs {
				if s == b {
					si = k
					break
				}
			}
			vs = append(vs, fr.val(e))
			cs = append(cs, fr.edgeCond(p, b, si))
		}
		if len(vs) == 0 {
			fr.setVal(in, vc.fresh("phi", vc.sortOf(in.Type())))
			return
		}
		r := vs[len(vs)-1]
		for i := len(vs) - 2; i >= 0; i-- {
			r = ite(cs[i], vs[i], r)
		}
		fr.setVal(in, r)
	case *ssa.Call:
		res := fr.call(in, &in.Call, st, pc)
		fr.bindResults(in, res)
	case *ssa.Extract:
		tup, ok := fr.tuples[in.Tuple]
		if !ok || in.Index >= len(tup) {
			fr.setVal(in, vc.fresh("extract", vc.sortOf(in.Type())))
			return
		}
		fr.vals[in] = tup[in.Index]
	case *ssa.Convert:
		fr.convert(in, st, pc)
	case *ssa.ChangeType:
		fr.vals[in] = fr.val(in.X)
		if l, ok := fr.locs[in.X]; ok {
			fr.locs[in] = l
		}
	case *ssa.ChangeInterface:
		fr.vals[in] = fr.val(in.X)
	case *ssa.MakeInterface:
		fr.makeInterface(in, st, pc)
	case *ssa.TypeAssert:
		fr.typeAssert(in, st, pc)
	case *ssa.MakeSlice:
		ln := fr.val(in.Len)
		cp := fr.val(in.Cap)
		vc.oblige("bounds", "safety", "makeslice", pc, and(le(tZero, ln), le(ln, cp)), "make: 0 <= len <= cap")
		elem := in.Type().Underlying().(*types.Slice).Elem()
		base := vc.allocRef(st, pc)
		vc.assumeRType(pc, base, in.Type())
		hname := elemHeapName(elem)
		hs := arraySort(SInt, arraySort(SInt, vc.sortOf(elem)))
		h := vc.heap(st, hname, hs)
		zeroArr := Term{fmt.Sprintf("((as const %s) %s)", arraySort(SInt, vc.sortOf(elem)), vc.zero(elem).S), arraySort(SInt, vc.sortOf(elem))}
		st.heaps[hname] = vc.def("h", store(h, base, zeroArr))
		fr.setVal(in, mkSlice(base, tZero, ln, cp))
	case *ssa.MakeMap:
		fr.makeMap(in, st, pc)
	case *ssa.MakeChan:
		fr.vals[in] = vc.allocRef(st, pc)
		vc.assumeRType(pc, fr.vals[in], in.Type())
	case *ssa.MakeClosure:
		f := in.Fn.(*ssa.Function)
		fr.closures[in] = &closureInfo{fn: f, bindings: in.Bindings}
		fr.vals[in] = vc.allocRef(st, pc)
		vc.assumeRType(pc, fr.vals[in], in.Type())
	case *ssa.Lookup:
		fr.lookup(in, st, pc)
	case *ssa.MapUpdate:
		fr.mapUpdate(in, st, pc)
	case *ssa.Range:
		fr.rangeInit(in, st, pc)
	case *ssa.Next:
		fr.next(in, st, pc)
	case *ssa.Return:
		if p := in.Pos(); p.IsValid() {
			pos := vc.prog.Fset.Position(p)
			vc.curPos = fmt.Sprintf("%s:%d", pos.Filename, pos.Line)
		}
		var res []Term
		for _, r := range in.Results {
			res = append(res, fr.val(r))
		}
		fr.doReturn(st, pc, res)
	case *ssa.RunDefers:
		fr.runDefers(st, pc)
	case *ssa.Defer:
		st.cells[deferKey{in}] = tTrue
	case *ssa.Panic:
		if fr.isDeferStackPanic(in) {
			return
		}
		if fr.vc.contract != nil && fr.vc.contract.MayPanic {
			return
		}
		vc.oblige("unreachable-panic", "safety", "panic", pc, tFalse, "explicit panic must be unreachable")
	case *ssa.If, *ssa.Jump:
	case *ssa.Go:
		// the spawned function's preconditions must hold where it is started
		fr.goRequires(in, st, pc)
		vc.warn("%s: go statement: effects of the goroutine are not tracked (heap havoc)", fr.fn.Name())
		preGo := st.clone()
		vc.havocAllHeaps(st)
		// ghosts that the spawned function (or what it calls) assigns with
		// set clauses may change at any time from here on
		for _, h := range vc.callEffects(fr, &in.Call).sorted() {
			if vc.specs.isSetGhostHeap(h) {
				vc.havocHeap(st, h)
				vc.warn("%s: go statement starts a function with set clauses for %s: the ghost is havoced (interference is not modelled)", fr.fn.Name(), h)
			}
		}
		if ci, ok := fr.closures[in.Call.Value]; ok {
			// the goroutine writes only the variables it captures itself
			fr.havocCapturedBy(ci, st, pc)
		} else {
			fr.havocCaptured(st, pc)
		}
		fr.goEnsures(in, st, preGo, pc)
	case *ssa.Send:
		fr.send(in, st, pc)
	case *ssa.Select:
		fr.selectOp(in, st, pc)
	default:
		fr.unsupported(in, st, pc, fmt.Sprintf("%T", in))
	}
}

// deferKey keys the "this defer statement was executed" flag in State.cells.
type deferKey struct{ d *ssa.Defer }

func (k deferKey) Name() string                  { return "defer" }
func (k deferKey) String() string                { return "defer" }
func (k deferKey) Type() types.Type              { return tBool }
func (k deferKey) Parent() *ssa.Function         { return k.d.Parent() }
func (k deferKey) Referrers() *[]ssa.Instruction { return nil }
func (k deferKey) Pos() token.Pos                { return k.d.Pos() }

func (fr *Frame) isDeferStackPanic(in *ssa.Panic) bool { return false }

func (fr *Frame) unsupported(in ssa.Instruction, st *State, pc Term, what string) {
	vc := fr.vc
	vc.warn("%s: unsupported %s: result and heap havoced", funcName(fr.fn), what)
	vc.havocAllHeaps(st)
	if v, ok := in.(ssa.Value); ok {
		if tup, ok := v.Type().(*types.Tuple); ok {
			var ts []Term
			for i := 0; i < tup.Len(); i++ {
				ts = append(ts, fr.freshTyped("unk", tup.At(i).Type(), st, pc))
			}
			fr.tuples[v] = ts
		} else {
			fr.vals[v] = fr.freshTyped("unk", v.Type(), st, pc)
		}
	}
}

func (fr *Frame) freshTyped(base string, t types.Type, st *State, pc Term) Term {
	v := fr.vc.fresh(base, fr.vc.sortOf(t))
	fr.vc.assume(tTrue, fr.vc.typeFacts(v, t, st.wm))
	return v
}

func (fr *Frame) bindResults(v ssa.Value, res []Term) {
	if tup, ok := v.Type().(*types.Tuple); ok {
		if len(res) != tup.Len() {
			panic(fmt.Sprintf("result arity mismatch for %s", v))
		}
		fr.tuples[v] = res
		return
	}
	if len(res) == 1 {
		fr.vals[v] = res[0]
	}
}

func (fr *Frame) unop(in *ssa.UnOp, st *State, pc Term) {
	vc := fr.vc
	switch in.Op {
	case token.MUL:
		l := fr.addr(in.X)
		fr.nilCheck(l, pc, "load")
		v := fr.loadLoc(st, l, pc)
		fr.setVal(in, v)
		// a local variable that only ever holds one closure: calls through
		// it are calls of that closure
		if a, ok := in.X.(*ssa.Alloc); ok {
			if mc := singleClosureStore(a); mc != nil {
				if ci, ok := fr.closures[mc]; ok {
					fr.closures[in] = ci
				}
			}
		}
	case token.NOT:
		fr.setVal(in, not(fr.val(in.X)))
	case token.SUB:
		x := fr.val(in.X)
		if x.Sort == SReal {
			fr.setVal(in, T(SReal, "(- %s)", x.S))
			return
		}
		r := T(SInt, "(- %s)", x.S)
		if isUnsigned(in.Type()) {
			r = vc.wrapUnsigned(r, in.Type())
		}
		fr.setVal(in, r)
	case token.XOR:
		x := fr.val(in.X)
		if isUnsigned(in.Type()) {
			_, hi, _ := intRange(in.Type().Underlying().(*types.Basic))
			fr.setVal(in, sub(bigLit(hi), x))
		} else {
			fr.setVal(in, T(SInt, "(- (- %s) 1)", x.S))
		}
	case token.ARROW:
		fr.recv(in, st, pc)
	default:
		fr.unsupported(in, st, pc, "unary "+in.Op.String())
	}
}

// strLitExt assumes the extensionality instance for a string value compared
// with a string literal (at most 64 bytes: the length for which strConst
// states the bytes): if x has the literal's length and bytes, x is the literal.
func (vc *VC) strLitExt(pc, x Term, c *ssa.Const) {
	if c.Value == nil || c.Value.Kind() != constant.String {
		return
	}
	lit := constant.StringVal(c.Value)
	if len(lit) == 0 || len(lit) > 64 {
		return
	}
	l := vc.strConst(lit)
	conj := []Term{eq(T(SInt, "(slen %s)", x.S), intLit(int64(len(lit))))}
	for i := 0; i < len(lit); i++ {
		conj = append(conj, eq(T(SInt, "(sat %s %d)", x.S, i), intLit(int64(lit[i]))))
	}
	vc.assume(pc, implies(and(conj...), eq(x, l)))
}

func (vc *VC) wrapUnsigned(v Term, t types.Type) Term {
	bits := intBits(t)
	m := new(big.Int).Lsh(big.NewInt(1), uint(bits))
	return T(SInt, "(mod %s %s)", v.S, m.String())
}

func (fr *Frame) binop(in *ssa.BinOp, st *State, pc Term) Term {
	vc := fr.vc
	x, y := fr.val(in.X), fr.val(in.Y)
	xt := in.X.Type()
	switch in.Op {
	case token.EQL, token.NEQ:
		var r Term
		if x.Sort == SSlice {
			// slices compare only with nil
			other := x
			if x.S == "nil_slice" {
				other = y
			}
			r = eq(sBase(other), tZero)
		} else if x.Sort != y.Sort {
			vc.warn("%s: comparison of different sorts", fr.fn.Name())
			r = vc.fresh("cmp", SBool)
		} else if arr, ok := xt.Underlying().(*types.Array); ok {
			// Go compares the N elements; SMT array equality would also
			// compare the (meaningless) indices outside 0..N-1
			r = vc.arrayEq(x, y, arr)
		} else {
			r = eq(x, y)
			if x.Sort == SStr {
				// Go string equality is extensional; the abstract Str sort is
				// not. For a comparison with a literal, state the ground
				// instance: same length and same bytes as the literal => equal.
				if c, ok := in.Y.(*ssa.Const); ok {
					vc.strLitExt(pc, x, c)
				} else if c, ok := in.X.(*ssa.Const); ok {
					vc.strLitExt(pc, y, c)
				}
			}
		}
		if in.Op == token.NEQ {
			r = not(r)
		}
		return r
	case token.LSS, token.LEQ, token.GTR, token.GEQ:
		if x.Sort == SStr {
			vc.declare("str_lt", "(declare-fun str_lt (Str Str) Bool)")
			switch in.Op {
			case token.LSS:
				return T(SBool, "(str_lt %s %s)", x.S, y.S)
			case token.GTR:
				return T(SBool, "(str_lt %s %s)", y.S, x.S)
			case token.LEQ:
				return not(T(SBool, "(str_lt %s %s)", y.S, x.S))
			default:
				return not(T(SBool, "(str_lt %s %s)", x.S, y.S))
			}
		}
		return T(SBool, "(%s %s %s)", in.Op.String(), x.S, y.S)
	}
	if x.Sort == SStr && in.Op == token.ADD {
		return vc.strConcat(x, y)
	}
	if x.Sort == SReal {
		switch in.Op {
		case token.ADD, token.SUB, token.MUL:
			return T(SReal, "(%s %s %s)", in.Op.String(), x.S, y.S)
		}
		return vc.fresh("float", SReal)
	}
	if x.Sort != SInt {
		vc.warn("%s: binary %s on sort %s", fr.fn.Name(), in.Op, x.Sort)
		return vc.fresh("bin", vc.sortOf(in.Type()))
	}
	unsigned := isUnsigned(xt)
	c := vc.contract
	wraps := c != nil && c.Wraps
	overflow := c != nil && c.Overflow
	var r Term
	switch in.Op {
	case token.ADD, token.MUL:
		r = T(SInt, "(%s %s %s)", in.Op.String(), x.S, y.S)
		if b, ok := xt.Underlying().(*types.Basic); ok {
			if lo, hi, ok := intRange(b); ok {
				if overflow && !wraps {
					vc.oblige("overflow", "safety", in.Op.String(), pc, and(le(bigLit(lo), r), le(r, bigLit(hi))), "arithmetic stays in range of "+xt.String())
				} else if unsigned {
					r = vc.wrapUnsigned(r, xt)
				}
			}
		}
	case token.SUB:
		r = sub(x, y)
		if unsigned {
			if wraps {
				r = vc.wrapUnsigned(r, xt)
			} else {
				vc.oblige("overflow", "safety", "usub", pc, le(y, x), "unsigned subtraction does not wrap")
			}
		} else if overflow {
			if b, ok := xt.Underlying().(*types.Basic); ok {
				if lo, hi, ok := intRange(b); ok {
					vc.oblige("overflow", "safety", "sub", pc, and(le(bigLit(lo), r), le(r, bigLit(hi))), "arithmetic stays in range of "+xt.String())
				}
			}
		}
	case token.QUO:
		vc.oblige("div0", "safety", "quo", pc, not(eq(y, tZero)), "division by zero")
		r = vc.goDiv(x, y, true)
	case token.REM:
		vc.oblige("div0", "safety", "rem", pc, not(eq(y, tZero)), "division by zero")
		r = vc.goMod(x, y, true)
	case token.AND:
		r = vc.bitAnd(x, y)
	case token.OR:
		r = vc.bitOr(x, y)
	case token.XOR:
		r = T(SInt, "(bit_xor %s %s)", x.S, y.S)
	case token.AND_NOT:
		r = sub(x, vc.bitAnd(x, y))
	case token.SHL:
		r = vc.shl(x, y)
		if unsigned {
			r = vc.wrapUnsigned(r, xt)
		}
	case token.SHR:
		r = vc.shr(x, y)
	default:
		vc.warn("%s: binary operator %s", fr.fn.Name(), in.Op)
		r = vc.fresh("bin", SInt)
	}
	return r
}

func (vc *VC) arrayEq(x, y Term, arr *types.Array) Term {
	if arr.Len() <= 32 {
		var cs []Term
		for i := int64(0); i < arr.Len(); i++ {
			cs = append(cs, eq(sel(x, intLit(i)), sel(y, intLit(i))))
		}
		return and(cs...)
	}
	return T(SBool, "(forall ((ai Int)) (=> (and (<= 0 ai) (< ai %d)) (= (select %s ai) (select %s ai))))", arr.Len(), x.S, y.S)
}

func constOf(t Term) (*big.Int, bool) {
	n, ok := new(big.Int).SetString(t.S, 10)
	return n, ok
}

// bitAnd encodes x & y; when one operand is a non-negative constant the
// result is the exact arithmetic sum of the selected bits.
func (vc *VC) bitAnd(x, y Term) Term {
	if c, ok := constOf(y); ok {
		return vc.andConst(x, c)
	}
	if c, ok := constOf(x); ok {
		return vc.andConst(y, c)
	}
	return T(SInt, "(bit_and %s %s)", x.S, y.S)
}

func (vc *VC) andConst(x Term, c *big.Int) Term {
	if c.Sign() == 0 {
		return tZero
	}
	// contiguous low mask: x mod 2^k
	plus1 := new(big.Int).Add(c, big.NewInt(1))
	if plus1.BitLen()-1 == c.BitLen() && new(big.Int).And(plus1, c).Sign() == 0 {
		return T(SInt, "(mod %s %s)", x.S, plus1.String())
	}
	var parts []string
	for k := 0; k < c.BitLen(); k++ {
		if c.Bit(k) == 1 {
			p := new(big.Int).Lsh(big.NewInt(1), uint(k))
			parts = append(parts, fmt.Sprintf("(* %s (mod (div %s %s) 2))", p.String(), x.S, p.String()))
		}
	}
	if len(parts) == 1 {
		return Term{parts[0], SInt}
	}
	return Term{"(+ " + strings.Join(parts, " ") + ")", SInt}
}

func (vc *VC) bitOr(x, y Term) Term {
	if c, ok := constOf(y); ok {
		return sub(add(x, y), vc.andConst(x, c))
	}
	if c, ok := constOf(x); ok {
		return sub(add(x, y), vc.andConst(y, c))
	}
	return T(SInt, "(bit_or %s %s)", x.S, y.S)
}

func (vc *VC) shl(x, y Term) Term {
	if c, ok := constOf(y); ok && c.IsInt64() && c.Int64() < 128 {
		return T(SInt, "(* %s %s)", x.S, new(big.Int).Lsh(big.NewInt(1), uint(c.Int64())).String())
	}
	return T(SInt, "(bit_shl %s %s)", x.S, y.S)
}

func (vc *VC) shr(x, y Term) Term {
	if c, ok := constOf(y); ok && c.IsInt64() && c.Int64() < 128 {
		return T(SInt, "(div %s %s)", x.S, new(big.Int).Lsh(big.NewInt(1), uint(c.Int64())).String())
	}
	return T(SInt, "(bit_shr %s %s)", x.S, y.S)
}

func (vc *VC) strConcat(a, b Term) Term {
	vc.declare("str_concat", `(declare-fun str_concat (Str Str) Str)
(assert (forall ((a Str) (b Str)) (! (= (slen (str_concat a b)) (+ (slen a) (slen b))) :pattern ((str_concat a b)))))
(assert (forall ((a Str) (b Str) (i Int)) (! (= (sat (str_concat a b) i) (ite (< i (slen a)) (sat a i) (sat b (- i (slen a))))) :pattern ((sat (str_concat a b) i)))))`)
	return T(SStr, "(str_concat %s %s)", a.S, b.S)
}

func (fr *Frame) fieldAddr(in *ssa.FieldAddr, st *State, pc Term) {
	vc := fr.vc
	stType := derefType(in.X.Type())
	stt := stType.Underlying().(*types.Struct)
	f := stt.Field(in.Field)
	if l, ok := fr.locs[in.X]; ok && l.kind != "structref" {
		fr.locs[in] = l.extend(pathElem{isField: true, field: in.Field, owner: stType}, f.Type())
		return
	}
	var ref Term
	if l, ok := fr.locs[in.X]; ok {
		ref = l.ref
	} else {
		switch x := in.X.(type) {
		case *ssa.Global, *ssa.FreeVar:
			l := fr.addr(x)
			fr.locs[in] = l.extend(pathElem{isField: true, field: in.Field, owner: stType}, f.Type())
			return
		}
		ref = fr.val(in.X)
	}
	fr.locs[in] = &Loc{kind: "field", ref: ref, heap: fieldHeapName(stType, f.Name()), hsort: arraySort(SInt, vc.sortOf(f.Type())), root: f.Type(), typ: f.Type()}
}

func (fr *Frame) indexAddr(in *ssa.IndexAddr, st *State, pc Term) {
	vc := fr.vc
	idx := fr.val(in.Index)
	switch u := in.X.Type().Underlying().(type) {
	case *types.Slice:
		s := fr.val(in.X)
		vc.oblige("bounds", "safety", "index", pc, and(le(tZero, idx), lt(idx, sLen(s))), "slice index in range")
		fr.locs[in] = &Loc{kind: "elem", slice: s, idx: idx, heap: elemHeapName(u.Elem()), hsort: arraySort(SInt, arraySort(SInt, vc.sortOf(u.Elem()))), root: u.Elem(), typ: u.Elem()}
	case *types.Pointer:
		arr := u.Elem().Underlying().(*types.Array)
		vc.oblige("bounds", "safety", "index", pc, and(le(tZero, idx), lt(idx, intLit(arr.Len()))), "array index in range")
		l := fr.addr(in.X)
		fr.locs[in] = l.extend(pathElem{isField: false, owner: u.Elem(), idx: idx}, arr.Elem())
	default:
		fr.unsupported(in, st, pc, "IndexAddr on "+in.X.Type().String())
	}
}

func (fr *Frame) sliceOp(in *ssa.Slice, st *State, pc Term) {
	vc := fr.vc
	switch u := in.X.Type().Underlying().(type) {
	case *types.Slice:
		s := fr.val(in.X)
		lo := tZero
		if in.Low != nil {
			lo = fr.val(in.Low)
		}
		hi := sLen(s)
		if in.High != nil {
			hi = fr.val(in.High)
		}
		mx := sCap(s)
		if in.Max != nil {
			mx = fr.val(in.Max)
			vc.oblige("bounds", "safety", "slice3", pc, and(le(tZero, lo), le(lo, hi), le(hi, mx), le(mx, sCap(s))), "slice bounds 0 <= lo <= hi <= max <= cap")
		} else {
			vc.oblige("bounds", "safety", "slice", pc, and(le(tZero, lo), le(lo, hi), le(hi, sCap(s))), "slice bounds 0 <= lo <= hi <= cap")
		}
		fr.setVal(in, mkSlice(sBase(s), add(sOff(s), lo), sub(hi, lo), sub(mx, lo)))
	case *types.Basic: // string
		s := fr.val(in.X)
		lo := tZero
		if in.Low != nil {
			lo = fr.val(in.Low)
		}
		hi := T(SInt, "(slen %s)", s.S)
		if in.High != nil {
			hi = fr.val(in.High)
		}
		vc.oblige("bounds", "safety", "strslice", pc, and(le(tZero, lo), le(lo, hi), le(hi, T(SInt, "(slen %s)", s.S))), "string slice bounds")
		fr.setVal(in, vc.strSub(s, lo, hi))
	case *types.Pointer:
		arr, ok := u.Elem().Underlying().(*types.Array)
		if !ok {
			fr.unsupported(in, st, pc, "Slice of pointer")
			return
		}
		l := fr.addr(in.X)
		if l.kind != "ptr" || len(l.path) != 0 {
			fr.unsupported(in, st, pc, "Slice of array that is not a heap object")
			return
		}
		n := intLit(arr.Len())
		lo := tZero
		if in.Low != nil {
			lo = fr.val(in.Low)
		}
		hi := n
		if in.High != nil {
			hi = fr.val(in.High)
		}
		vc.oblige("bounds", "safety", "arrslice", pc, and(le(tZero, lo), le(lo, hi), le(hi, n)), "array slice bounds")
		fr.nilCheck(l, pc, "arrslice")
		fr.setVal(in, mkSlice(l.ref, lo, sub(hi, lo), sub(n, lo)))
	default:
		fr.unsupported(in, st, pc, "Slice on "+in.X.Type().String())
	}
}

func (vc *VC) strSub(s, lo, hi Term) Term {
	vc.declare("str_sub", `(declare-fun str_sub (Str Int Int) Str)
(assert (forall ((s Str) (lo Int) (hi Int)) (! (=> (and (<= 0 lo) (<= lo hi) (<= hi (slen s))) (= (slen (str_sub s lo hi)) (- hi lo))) :pattern ((str_sub s lo hi)))))
(assert (forall ((s Str) (lo Int) (hi Int) (i Int)) (! (=> (and (<= 0 i) (< i (- hi lo))) (= (sat (str_sub s lo hi) i) (sat s (+ lo i)))) :pattern ((sat (str_sub s lo hi) i)))))
(assert (forall ((s Str)) (! (= (str_sub s 0 (slen s)) s) :pattern ((str_sub s 0 (slen s))))))
(assert (forall ((s Str) (a Int) (b Int) (c Int) (d Int)) (! (=> (and (<= 0 a) (<= a b) (<= b (slen s)) (<= 0 c) (<= c d) (<= d (- b a))) (= (str_sub (str_sub s a b) c d) (str_sub s (+ a c) (+ a d)))) :pattern ((str_sub (str_sub s a b) c d)))))`)
	return T(SStr, "(str_sub %s %s %s)", s.S, lo.S, hi.S)
}

func (fr *Frame) convert(in *ssa.Convert, st *State, pc Term) {
	vc := fr.vc
	x := fr.val(in.X)
	from, to := in.X.Type(), in.Type()
	fb, fok := from.Underlying().(*types.Basic)
	tb, tok := to.Underlying().(*types.Basic)
	if fok && tok && fb.Info()&types.IsInteger != 0 && tb.Info()&types.IsInteger != 0 {
		flo, fhi, _ := intRange(fb)
		tlo, thi, ok2 := intRange(tb)
		if !ok2 || (flo != nil && tlo.Cmp(flo) <= 0 && thi.Cmp(fhi) >= 0) {
			fr.vals[in] = x
			return
		}
		c := vc.contract
		if c != nil && c.Wraps {
			if isUnsigned(to) {
				fr.setVal(in, vc.wrapUnsigned(x, to))
			} else {
				vc.warn("%s: signed wrapping conversion treated as identity", fr.fn.Name())
				fr.vals[in] = x
			}
			return
		}
		// constants convert exactly
		vc.oblige("conv", "safety", "intconv", pc, and(le(bigLit(tlo), x), le(x, bigLit(thi))), fmt.Sprintf("conversion %s -> %s preserves the value", from, to))
		fr.vals[in] = x
		return
	}
	// string <-> []byte
	if tok && tb.Info()&types.IsString != 0 {
		if sl, ok := from.Underlying().(*types.Slice); ok {
			if eb, ok := sl.Elem().Underlying().(*types.Basic); ok && eb.Kind() == types.Uint8 {
				s := vc.fresh("str", SStr)
				h := vc.heap(st, elemHeapName(sl.Elem()), arraySort(SInt, arraySort(SInt, SInt)))
				vc.assume(pc, eq(T(SInt, "(slen %s)", s.S), sLen(x)))
				vc.assume(pc, T(SBool, "(forall ((i Int)) (=> (and (<= 0 i) (< i %s)) (= (sat %s i) (select (select %s %s) (+ %s i)))))", sLen(x).S, s.S, h.S, sBase(x).S, sOff(x).S))
				fr.vals[in] = s
				return
			}
		}
		if fok && fb.Info()&types.IsString != 0 {
			fr.vals[in] = x
			return
		}
		// integer/rune to string
		s := vc.fresh("str", SStr)
		vc.assume(pc, le(tZero, T(SInt, "(slen %s)", s.S)))
		fr.vals[in] = s
		return
	}
	if fok && fb.Info()&types.IsString != 0 {
		if sl, ok := to.Underlying().(*types.Slice); ok {
			if eb, ok := sl.Elem().Underlying().(*types.Basic); ok && eb.Kind() == types.Uint8 {
				base := vc.allocRef(st, pc)
				vc.assumeRType(pc, base, to)
				hname := elemHeapName(sl.Elem())
				h := vc.heap(st, hname, arraySort(SInt, arraySort(SInt, SInt)))
				arr := vc.fresh("bytes", arraySort(SInt, SInt))
				n := T(SInt, "(slen %s)", x.S)
				vc.assume(pc, T(SBool, "(forall ((i Int)) (=> (and (<= 0 i) (< i %s)) (= (select %s i) (sat %s i))))", n.S, arr.S, x.S))
				st.heaps[hname] = vc.def("h", store(h, base, arr))
				fr.setVal(in, mkSlice(base, tZero, n, n))
				return
			}
		}
	}
	if x.Sort == vc.sortOf(to) && x.Sort != SInt {
		fr.vals[in] = x
		return
	}
	// floats and everything else: unconstrained value of the target type
	fr.vals[in] = fr.freshTyped("conv", to, st, pc)
}

func (fr *Frame) makeInterface(in *ssa.MakeInterface, st *State, pc Term) {
	vc := fr.vc
	x := fr.val(in.X)
	key := typeKey(in.X.Type())
	bx := quote("box:" + key)
	ub := quote("unbox:" + key)
	vc.sortOf(in.X.Type())
	vc.declare("box:"+key, fmt.Sprintf("(declare-fun %s (%s) Int)\n(declare-fun %s (Int) %s)", bx, x.Sort, ub, x.Sort))
	v := vc.def(fr.name(in), T(SInt, "(%s %s)", bx, x.S))
	vc.assume(pc, and(lt(tZero, v), eq(T(SInt, "(typeof %s)", v.S), vc.typeTag(in.X.Type())), eq(T(x.Sort, "(%s %s)", ub, v.S), x)))
	fr.vals[in] = v
}

func (fr *Frame) typeAssert(in *ssa.TypeAssert, st *State, pc Term) {
	vc := fr.vc
	x := fr.val(in.X)
	_, toIface := in.AssertedType.Underlying().(*types.Interface)
	var okT, v Term
	if toIface {
		okT = vc.fresh("taok", SBool)
		vc.assume(pc, implies(okT, not(eq(x, tZero))))
		v = x
	} else {
		key := typeKey(in.AssertedType)
		sort := vc.sortOf(in.AssertedType)
		bx := quote("box:" + key)
		ub := quote("unbox:" + key)
		vc.declare("box:"+key, fmt.Sprintf("(declare-fun %s (%s) Int)\n(declare-fun %s (Int) %s)", bx, sort, ub, sort))
		okT = and(not(eq(x, tZero)), eq(T(SInt, "(typeof %s)", x.S), vc.typeTag(in.AssertedType)))
		v = vc.def(fr.name(in), T(sort, "(%s %s)", ub, x.S))
		vc.assume(pc, implies(okT, vc.typeFacts(v, in.AssertedType, st.wm)))
	}
	if in.CommaOk {
		okN := vc.def(fr.name(in)+":ok", okT)
		zero := vc.zero(in.AssertedType)
		if toIface {
			zero = tZero
		}
		fr.tuples[in] = []Term{ite(okN, v, zero), okN}
		return
	}
	if !(vc.contract != nil && vc.contract.MayPanic) {
		if toIface {
			vc.warn("%s: type assertion to interface assumed to succeed", fr.fn.Name())
		} else {
			vc.oblige("typeassert", "safety", "typeassert", pc, okT, "type assertion succeeds")
		}
	}
	fr.vals[in] = v
}

// doReturn handles a return: contract postconditions for the top-level
// function, result collection for inlined ones.
func (fr *Frame) doReturn(st *State, pc Term, res []Term) {
	if !fr.top {
		fr.rets = append(fr.rets, retInfo{guard: pc, st: st.clone(), results: res})
		return
	}
	fr.vc.checkPost(fr, st, pc, res)
}

// havocCaptured havocs every local cell that is shared with a closure.
func (fr *Frame) havocCaptured(st *State, pc Term) {
	for _, allocs := range fr.allocsByName {
		for _, a := range allocs {
			if !fr.cellAlloc[a] {
				continue
			}
			if _, live := st.cells[a]; !live {
				continue
			}
			if isCaptured(a) {
				elem := derefType(a.Type())
				st.cells[a] = fr.freshTyped("cap:"+a.Comment, elem, st, pc)
			}
		}
	}
}

// havocCapturedBy havocs the local cells that the given closure captures and
// may write (directly, or by handing them on to a nested closure).
func (fr *Frame) havocCapturedBy(ci *closureInfo, st *State, pc Term) {
	for i, fv := range ci.fn.FreeVars {
		if i >= len(ci.bindings) || !freeVarWritten(ci.fn, fv, 0) {
			continue
		}
		a, ok := ci.bindings[i].(*ssa.Alloc)
		if !ok || !fr.cellAlloc[a] {
			// not a cell of this frame (a free variable of an enclosing
			// function, or an escaping variable): fall back to the coarse havoc
			fr.havocCaptured(st, pc)
			return
		}
		if _, live := st.cells[a]; !live {
			continue
		}
		st.cells[a] = fr.freshTyped("cap:"+a.Comment, derefType(a.Type()), st, pc)
	}
}

// isCaptured reports whether a closure of the function captures the variable
// and may write it (directly, or by handing it on to a nested closure).
func isCaptured(a *ssa.Alloc) bool {
	if a.Referrers() == nil {
		return false
	}
	for _, r := range *a.Referrers() {
		if mc, ok := r.(*ssa.MakeClosure); ok {
			f := mc.Fn.(*ssa.Function)
			for i, b := range mc.Bindings {
				if b == ssa.Value(a) && i < len(f.FreeVars) && freeVarWritten(f, f.FreeVars[i], 0) {
					return true
				}
			}
		}
	}
	return false
}

// singleClosureStore returns the closure stored into a local variable when
// that is the only store to it and its address does not escape.
func singleClosureStore(a *ssa.Alloc) *ssa.MakeClosure {
	refs := a.Referrers()
	if refs == nil {
		return nil
	}
	var mc *ssa.MakeClosure
	for _, r := range *refs {
		switch r := r.(type) {
		case *ssa.Store:
			if r.Addr != ssa.Value(a) {
				return nil
			}
			m, ok := r.Val.(*ssa.MakeClosure)
			if !ok || mc != nil {
				return nil
			}
			mc = m
		case *ssa.UnOp, *ssa.DebugRef:
		default:
			return nil
		}
	}
	return mc
}

func freeVarWritten(f *ssa.Function, fv *ssa.FreeVar, depth int) bool {
	if depth > 4 {
		return true
	}
	for _, b := range f.Blocks {
		for _, in := range b.Instrs {
			switch in := in.(type) {
			case *ssa.Store:
				if addrRoot(in.Addr) == ssa.Value(fv) {
					return true
				}
			case *ssa.MakeClosure:
				g := in.Fn.(*ssa.Function)
				for i, bd := range in.Bindings {
					if bd == ssa.Value(fv) && i < len(g.FreeVars) && freeVarWritten(g, g.FreeVars[i], depth+1) {
						return true
					}
				}
			}
		}
	}
	// any other use of the address (passing it on) counts as a write
	if refs := fv.Referrers(); refs != nil {
		for _, r := range *refs {
			switch r.(type) {
			case *ssa.Store, *ssa.UnOp, *ssa.FieldAddr, *ssa.IndexAddr, *ssa.MakeClosure, *ssa.DebugRef:
			default:
				return true
			}
		}
	}
	return false
}

func isCapturedAtAll(a *ssa.Alloc) bool {
	if a.Referrers() == nil {
		return false
	}
	for _, r := range *a.Referrers() {
		if _, ok := r.(*ssa.MakeClosure); ok {
			return true
		}
	}
	return false
}
