package main

// SMT-LIB term construction, sorts and naming of heap arrays.

import (
	"regexp"
	"fmt"
	"go/types"
	"math/big"
	"strings"
)

type Sort = string

const (
	SInt   Sort = "Int"
	SBool  Sort = "Bool"
	SStr   Sort = "Str"
	SSlice Sort = "Slice"
	SReal  Sort = "Real"
)

type Term struct {
	S    string
	Sort Sort
}

func T(sort Sort, format string, args ...interface{}) Term {
	return Term{S: fmt.Sprintf(format, args...), Sort: sort}
}

func intLit(n int64) Term {
	if n < 0 {
		return Term{fmt.Sprintf("(- %d)", -n), SInt}
	}
	return Term{fmt.Sprintf("%d", n), SInt}
}

func bigLit(n *big.Int) Term {
	if n.Sign() < 0 {
		return Term{fmt.Sprintf("(- %s)", new(big.Int).Neg(n).String()), SInt}
	}
	return Term{n.String(), SInt}
}

var (
	tTrue  = Term{"true", SBool}
	tFalse = Term{"false", SBool}
	tZero  = Term{"0", SInt}
	tNilSl = Term{"nil_slice", SSlice}
)

func and(ts ...Term) Term {
	var parts []string
	for _, t := range ts {
		if t.S == "true" {
			continue
		}
		if t.S == "false" {
			return tFalse
		}
		parts = append(parts, t.S)
	}
	switch len(parts) {
	case 0:
		return tTrue
	case 1:
		return Term{parts[0], SBool}
	}
	return Term{"(and " + strings.Join(parts, " ") + ")", SBool}
}

func or(ts ...Term) Term {
	var parts []string
	for _, t := range ts {
		if t.S == "false" {
			continue
		}
		if t.S == "true" {
			return tTrue
		}
		parts = append(parts, t.S)
	}
	switch len(parts) {
	case 0:
		return tFalse
	case 1:
		return Term{parts[0], SBool}
	}
	return Term{"(or " + strings.Join(parts, " ") + ")", SBool}
}

func not(t Term) Term {
	switch t.S {
	case "true":
		return tFalse
	case "false":
		return tTrue
	}
	return Term{"(not " + t.S + ")", SBool}
}

func implies(a, b Term) Term {
	if a.S == "true" {
		return b
	}
	if b.S == "true" {
		return tTrue
	}
	return Term{"(=> " + a.S + " " + b.S + ")", SBool}
}

func eq(a, b Term) Term {
	if a.S == b.S {
		return tTrue
	}
	return Term{"(= " + a.S + " " + b.S + ")", SBool}
}

func ite(c, a, b Term) Term {
	if c.S == "true" {
		return a
	}
	if c.S == "false" {
		return b
	}
	if a.S == b.S {
		return a
	}
	return Term{"(ite " + c.S + " " + a.S + " " + b.S + ")", a.Sort}
}

func sel(arr, idx Term) Term {
	return Term{"(select " + arr.S + " " + idx.S + ")", arrayElemSort(arr.Sort)}
}

func store(arr, idx, v Term) Term {
	return Term{"(store " + arr.S + " " + idx.S + " " + v.S + ")", arr.Sort}
}

func arraySort(idx, elem Sort) Sort {
	return "(Array " + idx + " " + elem + ")"
}

// arrayElemSort returns the element sort of "(Array I E)".
func arrayElemSort(s Sort) Sort {
	if !strings.HasPrefix(s, "(Array ") {
		panic("not an array sort: " + s)
	}
	inner := s[len("(Array ") : len(s)-1]
	// index sort is the first s-expression
	k := sexprEnd(inner, 0)
	return strings.TrimSpace(inner[k:])
}

func arrayIndexSort(s Sort) Sort {
	inner := s[len("(Array ") : len(s)-1]
	k := sexprEnd(inner, 0)
	return strings.TrimSpace(inner[:k])
}

func sexprEnd(s string, i int) int {
	for i < len(s) && s[i] == ' ' {
		i++
	}
	if i < len(s) && s[i] == '(' {
		depth := 0
		for ; i < len(s); i++ {
			if s[i] == '(' {
				depth++
			} else if s[i] == ')' {
				depth--
				if depth == 0 {
					return i + 1
				}
			}
		}
		return len(s)
	}
	if i < len(s) && s[i] == '|' {
		i++
		for i < len(s) && s[i] != '|' {
			i++
		}
		return i + 1
	}
	for i < len(s) && s[i] != ' ' && s[i] != ')' {
		i++
	}
	return i
}

func sLen(s Term) Term  { return Term{"(s-len " + s.S + ")", SInt} }
func sCap(s Term) Term  { return Term{"(s-cap " + s.S + ")", SInt} }
func sOff(s Term) Term  { return Term{"(s-off " + s.S + ")", SInt} }
func sBase(s Term) Term { return Term{"(s-base " + s.S + ")", SInt} }
func mkSlice(base, off, ln, cp Term) Term {
	return Term{"(mk-slice " + base.S + " " + off.S + " " + ln.S + " " + cp.S + ")", SSlice}
}
func add(a, b Term) Term {
	if a.S == "0" {
		return b
	}
	if b.S == "0" {
		return a
	}
	return Term{"(+ " + a.S + " " + b.S + ")", SInt}
}
func sub(a, b Term) Term {
	if b.S == "0" {
		return a
	}
	return Term{"(- " + a.S + " " + b.S + ")", SInt}
}
func le(a, b Term) Term { return Term{"(<= " + a.S + " " + b.S + ")", SBool} }
func lt(a, b Term) Term { return Term{"(< " + a.S + " " + b.S + ")", SBool} }

// quote makes an SMT-LIB quoted symbol.
func quote(s string) string {
	s = strings.ReplaceAll(s, "|", "!")
	s = strings.ReplaceAll(s, "\\", "!")
	return "|" + s + "|"
}

const prelude = `(set-option :produce-models true)
(set-logic ALL)
(declare-sort Str 0)
(declare-datatypes ((Slice 0)) (((mk-slice (s-base Int) (s-off Int) (s-len Int) (s-cap Int)))))
(define-fun nil_slice () Slice (mk-slice 0 0 0 0))
(declare-fun slen (Str) Int)
(declare-fun sat (Str Int) Int)
(declare-fun str_empty () Str)
(assert (= (slen str_empty) 0))
(assert (forall ((s Str)) (! (=> (= (slen s) 0) (= s str_empty)) :pattern ((slen s)))))
(define-fun go_div ((a Int) (b Int)) Int (ite (>= a 0) (ite (> b 0) (div a b) (- (div a (- b)))) (ite (> b 0) (- (div (- a) b)) (div (- a) (- b)))))
(define-fun go_mod ((a Int) (b Int)) Int (ite (>= a 0) (mod a b) (- (mod (- a) b))))
(define-fun imin ((a Int) (b Int)) Int (ite (< a b) a b))
(define-fun imax ((a Int) (b Int)) Int (ite (< a b) b a))
(define-fun iabs ((a Int)) Int (ite (< a 0) (- a) a))
(declare-fun typeof (Int) Int)
(declare-fun bit_and (Int Int) Int)
(declare-fun bit_or (Int Int) Int)
(declare-fun bit_xor (Int Int) Int)
(declare-fun bit_shl (Int Int) Int)
(declare-fun bit_shr (Int Int) Int)
`

// intRange returns the inclusive range of an integer basic type.
func intRange(b *types.Basic) (lo, hi *big.Int, ok bool) {
	bits := 0
	signed := true
	switch b.Kind() {
	case types.Int8:
		bits = 8
	case types.Int16:
		bits = 16
	case types.Int32:
		bits = 32
	case types.Int, types.Int64:
		bits = 64
	case types.Uint8:
		bits, signed = 8, false
	case types.Uint16:
		bits, signed = 16, false
	case types.Uint32:
		bits, signed = 32, false
	case types.Uint, types.Uint64, types.Uintptr:
		bits, signed = 64, false
	default:
		return nil, nil, false
	}
	one := big.NewInt(1)
	if signed {
		hi = new(big.Int).Sub(new(big.Int).Lsh(one, uint(bits-1)), one)
		lo = new(big.Int).Neg(new(big.Int).Lsh(one, uint(bits-1)))
	} else {
		lo = big.NewInt(0)
		hi = new(big.Int).Sub(new(big.Int).Lsh(one, uint(bits)), one)
	}
	return lo, hi, true
}

func isUnsigned(t types.Type) bool {
	b, ok := t.Underlying().(*types.Basic)
	return ok && b.Info()&types.IsUnsigned != 0
}

func isInteger(t types.Type) bool {
	b, ok := t.Underlying().(*types.Basic)
	return ok && b.Info()&types.IsInteger != 0
}

func intBits(t types.Type) int {
	b, ok := t.Underlying().(*types.Basic)
	if !ok {
		return 64
	}
	switch b.Kind() {
	case types.Int8, types.Uint8:
		return 8
	case types.Int16, types.Uint16:
		return 16
	case types.Int32, types.Uint32:
		return 32
	}
	return 64
}

// typeKey is the canonical name of a Go type used in heap names.
func typeKey(t types.Type) string {
	s := types.TypeString(t, func(p *types.Package) string { return shortPkg(p.Path()) })
	// byte and rune are aliases: one heap per underlying type
	if strings.Contains(s, "uint8") || strings.Contains(s, "int32") {
		s = aliasRe.ReplaceAllStringFunc(s, func(m string) string {
			if m == "uint8" {
				return "byte"
			}
			return "rune"
		})
	}
	return s
}

var aliasRe = regexp.MustCompile(`\b(uint8|int32)\b`)

// Heap names.
func fieldHeapName(structType types.Type, field string) string {
	return quote("H:" + typeKey(structType) + "." + field)
}
func elemHeapName(elem types.Type) string { return quote("E:" + typeKey(elem)) }
func ptrHeapName(elem types.Type) string  { return quote("P:" + typeKey(elem)) }
func mapHasName(m types.Type) string      { return quote("MH:" + typeKey(m)) }
func mapValName(m types.Type) string      { return quote("MV:" + typeKey(m)) }
func mapLenName(m types.Type) string      { return quote("ML:" + typeKey(m)) }
func globalName(pkg, name string) string  { return quote("G:" + shortPkg(pkg) + "." + name) }

// goMod encodes Go's x % y. With a constant divisor the exact SMT term is
// used. With a symbolic divisor the solvers get lost on "mod" next to
// quantifiers, so the result is an application of an uninterpreted function
// constrained by arithmetic facts that hold for the real remainder (a sound
// abstraction: everything proved from them holds for the real operator).
func (vc *VC) goMod(x, y Term, ground bool) Term {
	if _, ok := constOf(y); ok {
		return T(SInt, "(go_mod %s %s)", x.S, y.S)
	}
	vc.declare("umod", "(declare-fun umod (Int Int) Int)")
	r := T(SInt, "(umod %s %s)", x.S, y.S)
	if ground {
		key := "umodfact:" + r.S
		if !vc.declared[key] {
			vc.declared[key] = true
			vc.lines = append(vc.lines,
				fmt.Sprintf("(assert (=> (and (<= 0 %s) (< 0 %s)) (and (<= 0 %s) (< %s %s))))", x.S, y.S, r.S, r.S, y.S),
				fmt.Sprintf("(assert (=> (and (<= 0 %s) (< %s %s)) (= %s %s)))", x.S, x.S, y.S, r.S, x.S),
				fmt.Sprintf("(assert (=> (and (< 0 %s) (<= %s %s) (< %s (* 2 %s))) (= %s (- %s %s))))", y.S, y.S, x.S, x.S, y.S, r.S, x.S, y.S))
		}
	}
	return r
}

func (vc *VC) goDiv(x, y Term, ground bool) Term {
	if _, ok := constOf(y); ok {
		return T(SInt, "(go_div %s %s)", x.S, y.S)
	}
	vc.declare("udiv", "(declare-fun udiv (Int Int) Int)")
	r := T(SInt, "(udiv %s %s)", x.S, y.S)
	if ground {
		key := "udivfact:" + r.S
		if !vc.declared[key] {
			vc.declared[key] = true
			vc.lines = append(vc.lines,
				fmt.Sprintf("(assert (=> (and (<= 0 %s) (< 0 %s)) (and (<= 0 %s) (<= %s %s))))", x.S, y.S, r.S, r.S, x.S),
				fmt.Sprintf("(assert (=> (and (<= 0 %s) (< %s %s)) (= %s 0)))", x.S, x.S, y.S, r.S),
				fmt.Sprintf("(assert (=> (and (< 0 %s) (<= %s %s) (< %s (* 2 %s))) (= %s 1)))", y.S, y.S, x.S, x.S, y.S, r.S))
		}
	}
	return r
}
