package main

// Calls: builtins, modular calls against contracts, inlining, opaque calls,
// defers, maps, ranges and channels.

import (
	"fmt"
	"go/token"
	"go/types"
	"sort"
	"strings"

	"golang.org/x/tools/go/ssa"
)

// call translates a call and then applies the "at call ... assume" clauses of
// the enclosing contract (trusted facts about the post-call state; each one
// used is listed among the assumptions).
func (fr *Frame) call(in ssa.Instruction, c *ssa.CallCommon, st *State, pc Term) []Term {
	pre := st.clone()
	res := fr.callInner(in, c, st, pc)
	if !fr.top || fr.contract == nil || fr.lastCallee == "" {
		return res
	}
	lastCallee, lastOrd := fr.lastCallee, fr.lastOrd
	for _, cs := range fr.contract.CallSites {
		if cs.Clause.Kind == "callset" && calleeMatches(cs.Callee, fr.lastCallee) && (cs.Ordinal == 0 || cs.Ordinal == fr.lastOrd) {
			fr.csMatched[cs] = true
			env := fr.specEnv(st, pc)
			env.old = pre
			vars := map[string]TV{}
			sig := c.Signature()
			for i, r := range res {
				vars[fmt.Sprintf("result%d", i)] = TV{r, sig.Results().At(i).Type()}
			}
			if len(res) == 1 {
				vars["result"] = TV{res[0], sig.Results().At(0).Type()}
			}
			fr.vc.ghostSet(env.with(vars), st, cs)
			continue
		}
		if cs.Clause.Kind != "callassume" && cs.Clause.Kind != "calllet" {
			continue
		}
		if calleeMatches(cs.Callee, lastCallee) && (cs.Ordinal == 0 || cs.Ordinal == lastOrd) {
			fr.csMatched[cs] = true
			env := fr.specEnv(st, pc)
			env.old = pre
			vars := map[string]TV{}
			sig := c.Signature()
			if cs.Clause.Kind == "calllet" {
				// "at call X let NAME = E": name the value of E in the state
				// right after the call; the name lives in the symbolic store
				// (path-sensitive, havoced by loops that contain the call)
				as, ats := fr.callArgTerms(c)
				for i, a := range as {
					vars[fmt.Sprintf("arg%d", i)] = TV{a, ats[i]}
				}
				for i, r := range res {
					vars[fmt.Sprintf("result%d", i)] = TV{r, sig.Results().At(i).Type()}
				}
				if len(res) == 1 {
					vars["result"] = TV{res[0], sig.Results().At(0).Type()}
				}
				tv, err := env.with(vars).eval(cs.Clause.E)
				if err != nil {
					fr.vc.specError(cs.Clause, err)
					continue
				}
				st.cells[letKey{cs.Let}] = fr.vc.def("let:"+cs.Let, tv.T)
				if fr.letTypes == nil {
					fr.letTypes = map[string]types.Type{}
					fr.letSorts = map[string]Sort{}
				}
				fr.letTypes[cs.Let] = tv.Typ
				fr.letSorts[cs.Let] = tv.T.Sort
				recordLetInfo(fr.vc.fname, cs.Let, tv.T.Sort, tv.Typ)
				continue
			}
			for i, r := range res {
				vars[fmt.Sprintf("result%d", i)] = TV{r, sig.Results().At(i).Type()}
			}
			if len(res) == 1 {
				vars["result"] = TV{res[0], sig.Results().At(0).Type()}
			}
			// argN: the arguments the call was made with (0 = receiver)
			for i, a := range fr.lastArgs {
				vars[fmt.Sprintf("arg%d", i)] = TV{a, fr.lastArgTypes[i]}
			}
			if _, err := env.with(vars).evalBool(cs.Clause.E); err != nil {
				fr.vc.specError(cs.Clause, err)
				continue
			}
			// assumed like a callee postcondition: universally quantified
			// conjuncts are recorded for instantiation
			fr.vc.assumeClause(pc, env.with(vars), cs.Clause)
			fr.vc.assumes["assumed after call "+cs.Callee+" in "+fr.vc.fname+": "+cs.Clause.Src] = true
		}
	}
	return res
}

// ghostSet executes a set clause: the scalar ghost named by cs.Target takes
// the value of the clause's expression in env.
func (vc *VC) ghostSet(env *Env, st *State, cs *CallSiteSpec) {
	g := vc.specs.ghost(cs.Target)
	if g == nil || g.IsMap {
		vc.specError(cs.Clause, fmt.Errorf("set: %q is not a scalar ghost", cs.Target))
		return
	}
	v, err := env.eval(cs.Clause.E)
	if err != nil {
		vc.specError(cs.Clause, err)
		return
	}
	if v.T.Sort != g.sort() {
		vc.specError(cs.Clause, fmt.Errorf("set: ghost %s has sort %s, expression has sort %s", g.Name, g.sort(), v.T.Sort))
		return
	}
	vc.heap(st, g.heapName(), g.sort()) // registers the heap
	st.heaps[g.heapName()] = vc.def("gs:"+g.Name, v.T)
}

func (fr *Frame) callInner(in ssa.Instruction, c *ssa.CallCommon, st *State, pc Term) []Term {
	vc := fr.vc
	sig := c.Signature()
	fr.lastCallee = ""
	if b, ok := c.Value.(*ssa.Builtin); ok {
		// "at call close assert ..." (and other builtins with side effects):
		// call-site assertions of the enclosing contract apply to builtins too,
		// under the name "builtin.<name>" (matched by the suffix "<name>").
		if fr.top && fr.contract != nil && (b.Name() == "close" || b.Name() == "delete" || b.Name() == "panic" || b.Name() == "append") {
			name := "builtin." + b.Name()
			var bargs []Term
			var btypes []types.Type
			for _, a := range c.Args {
				bargs = append(bargs, fr.val(a))
				btypes = append(btypes, a.Type())
			}
			fr.callOrd[name]++
			for _, cs := range fr.contract.CallSites {
				if cs.Clause.Kind != "callsite" || !calleeMatches(cs.Callee, name) {
					continue
				}
				if cs.Ordinal != 0 && cs.Ordinal != fr.callOrd[name] {
					continue
				}
				fr.csMatched[cs] = true
				env := fr.specEnv(st, pc)
				vars := map[string]TV{}
				for i, a := range bargs {
					vars[fmt.Sprintf("arg%d", i)] = TV{a, btypes[i]}
				}
				g, err := env.with(vars).evalBool(cs.Clause.E)
				if err != nil {
					vc.specError(cs.Clause, err)
				} else {
					vc.oblige("callsite", cs.Clause.Label, fmt.Sprintf("%s#%d:%s", b.Name(), fr.callOrd[name], labelOr(cs.Clause.Label, "assert")), pc, g, cs.Clause.Src)
				}
			}
		}
		res := fr.builtin(in, b, c, st, pc)
		if fr.top && fr.contract != nil && b.Name() == "append" {
			// "at call append#n let X = result" / "... assume": handled by call()
			fr.lastCallee, fr.lastOrd = "builtin.append", fr.callOrd["builtin.append"]
		}
		return res
	}
	var args []Term
	var argTypes []types.Type
	calleeName := ""
	var callee *ssa.Function
	var closure *closureInfo
	if c.IsInvoke() {
		recv := fr.val(c.Value)
		args = append(args, recv)
		argTypes = append(argTypes, c.Value.Type())
		calleeName = vc.specs.ifaceName(c)
	} else {
		if ci, ok := fr.closures[c.Value]; ok {
			closure = ci
			callee = ci.fn
		} else {
			callee = c.StaticCallee()
		}
		if callee != nil {
			calleeName = funcName(callee)
		} else if n := fieldFuncName(c.Value); n != "" {
			// call through a function-typed struct field: "pkg.Type.field"
			calleeName = n
		}
	}
	// interior addresses (&x.f, &a[i], &local) passed as arguments: an inlined
	// callee works on the caller's location; after any other call the location
	// is havoced (the callee may have written through the pointer)
	argLocs := map[int]*Loc{}
	for _, a := range c.Args {
		if l, ok := fr.locs[a]; ok {
			if _, isPtr := a.Type().Underlying().(*types.Pointer); isPtr {
				if _, done := fr.vals[a]; !done {
					fr.vals[a] = vc.fresh("addr", SInt)
				}
				argLocs[len(args)] = l
			}
		}
		args = append(args, fr.val(a))
		argTypes = append(argTypes, a.Type())
	}
	if len(argLocs) > 0 {
		defer func() {
			if fr.argLocsUsed {
				fr.argLocsUsed = false
				return
			}
			if fc := vc.specs.contractFor(calleeName); fc != nil {
				if fc.Pure {
					return
				}
			} else if eff := vc.effectsOfCall(fr, c, callee); !eff.top && len(eff.heaps) == 0 {
				// the callee writes no modelled heap (e.g. sync primitives)
				return
			}
			var idx []int
			for i := range argLocs {
				idx = append(idx, i)
			}
			sort.Ints(idx)
			for _, i := range idx {
				l := argLocs[i]
				vc.warn("%s: address of a variable or field passed to %s: location havoced after the call", fr.fn.Name(), calleeName)
				fr.storeToLoc(st, l, fr.freshTyped("esc", l.typ, st, pc))
			}
		}()
	}
	fr.pendingArgLocs = argLocs
	fr.callOrd[calleeName]++
	ord := fr.callOrd[calleeName]
	site := fmt.Sprintf("%s#%d", shortCallee(calleeName), ord)
	fr.lastCallee, fr.lastOrd = calleeName, ord
	fr.lastArgs, fr.lastArgTypes = args, argTypes
	// call-site assertions of the enclosing contract
	if fr.top && fr.contract != nil {
		for _, cs := range fr.contract.CallSites {
			if cs.Clause.Kind != "callsite" {
				continue
			}
			if calleeMatches(cs.Callee, calleeName) && (cs.Ordinal == 0 || cs.Ordinal == ord) {
				fr.csMatched[cs] = true
				env := fr.specEnv(st, pc)
				vars := map[string]TV{}
				for i, a := range args {
					vars[fmt.Sprintf("arg%d", i)] = TV{a, argTypes[i]}
				}
				g, err := env.with(vars).evalBool(cs.Clause.E)
				if err != nil {
					vc.specError(cs.Clause, err)
				} else {
					vc.oblige("callsite", cs.Clause.Label, site+":"+labelOr(cs.Clause.Label, "assert"), pc, g, cs.Clause.Src)
				}
			}
		}
	}
	nres := sig.Results().Len()
	// 1. contract (function, closure, interface method or extern)
	if calleeName != "" {
		if fc := vc.specs.contractFor(calleeName); fc != nil && !(fc.InlineCalls && callee != nil && fr.canInline(callee)) {
			return fr.modularCall(fc, callee, c, args, argTypes, sig, st, pc, site)
		}
	}
	// 2. inlining
	if callee != nil && fr.canInline(callee) {
		return fr.inline(callee, closure, args, st, pc)
	}
	// 3. opaque call
	if nilRecv := (callee != nil && callee.Signature.Recv() != nil); nilRecv {
		_ = nilRecv
	}
	eff := vc.effectsOfCall(fr, c, callee)
	if eff.top {
		preTop := st.clone()
		vc.havocAllHeaps(st)
		// heaps the callee is known to write are havoced even when they are
		// protected from unknown callees (private / immutable types)
		for _, h := range eff.sorted() {
			if vc.specs.isPrivateHeap(h) || vc.specs.isImmutableHeap(h) || vc.specs.isSetGhostHeap(h) {
				vc.havocHeapKeepOld(st, preTop, h, pc)
			}
		}
		vc.noteOpaque(calleeName, c, "all heaps havoced ("+eff.why+")")
	} else {
		preSt := st.clone()
		if len(eff.heaps) > 0 || eff.allocs {
			vc.bumpWatermark(st)
		}
		for _, h := range eff.sorted() {
			vc.havocHeapKeepOld(st, preSt, h, pc)
		}
		if false {
		}
		vc.noteOpaque(calleeName, c, "effect set "+strings.Join(eff.sorted(), ","))
	}
	if eff.top || eff.callsUnknown || closure != nil || callee == nil {
		fr.havocCaptured(st, pc)
	} else if callee != nil && fr.mayRunLocalClosure(c) {
		fr.havocCaptured(st, pc)
	}
	var res []Term
	for i := 0; i < nres; i++ {
		res = append(res, fr.freshTyped("res:"+shortCallee(calleeName), sig.Results().At(i).Type(), st, pc))
	}
	return res
}

// letKey keys a spec-level name bound by "at call X let NAME = E" in
// State.cells.
type letKey struct{ name string }

func (k letKey) Name() string                  { return "let:" + k.name }
func (k letKey) String() string                { return "let:" + k.name }
func (k letKey) Type() types.Type              { return tInt }
func (k letKey) Parent() *ssa.Function         { return nil }
func (k letKey) Referrers() *[]ssa.Instruction { return nil }
func (k letKey) Pos() token.Pos                { return token.NoPos }

// callArgTerms returns the argument terms of a translated call as the
// call-site clauses see them (arg0 = receiver for interface method calls).
func (fr *Frame) callArgTerms(c *ssa.CallCommon) ([]Term, []types.Type) {
	var args []Term
	var ts []types.Type
	if c.IsInvoke() {
		args = append(args, fr.val(c.Value))
		ts = append(ts, c.Value.Type())
	}
	for _, a := range c.Args {
		args = append(args, fr.val(a))
		ts = append(ts, a.Type())
	}
	return args, ts
}

// calleeNameOf names the callee of a call the way callInner does, without
// translating it (used to find the calls that bind let names inside loops).
func (fr *Frame) calleeNameOf(c *ssa.CallCommon) string {
	if b, ok := c.Value.(*ssa.Builtin); ok {
		return "builtin." + b.Name()
	}
	if c.IsInvoke() {
		return fr.vc.specs.ifaceName(c)
	}
	if ci, ok := fr.closures[c.Value]; ok {
		return funcName(ci.fn)
	}
	if callee := c.StaticCallee(); callee != nil {
		return funcName(callee)
	}
	return fieldFuncName(c.Value)
}

// calleeMatches reports whether a call-site clause written for pattern names
// the callee: full name, name without the directory, or without the package.
func calleeMatches(pattern, callee string) bool {
	return pattern == callee || pattern == shortCallee(callee) || strings.HasSuffix(callee, "."+pattern)
}

func labelOr(l, d string) string {
	if l == "" {
		return d
	}
	return l
}

func shortCallee(name string) string {
	if k := strings.LastIndex(name, "/"); k >= 0 {
		return name[k+1:]
	}
	return name
}

// mayRunLocalClosure reports whether a closure of this function is passed to
// the call (and so may run during it).
func (fr *Frame) mayRunLocalClosure(c *ssa.CallCommon) bool {
	for _, a := range c.Args {
		if _, ok := fr.closures[a]; ok {
			return true
		}
		if _, ok := a.Type().Underlying().(*types.Signature); ok {
			return true
		}
	}
	return false
}

// fieldFuncName names a dynamically called function value for contract
// lookup: "pkg.Type.field" for a value loaded from a struct field, or
// "pkg.FuncType" for a value of a named function type.
func fieldFuncName(v ssa.Value) string {
	u, ok := v.(*ssa.UnOp)
	if !ok {
		return namedFuncTypeName(v.Type())
	}
	if n := fieldFuncName0(u); n != "" {
		return n
	}
	return namedFuncTypeName(v.Type())
}

func namedFuncTypeName(t types.Type) string {
	if n, ok := t.(*types.Named); ok && n.Obj().Pkg() != nil {
		if _, isSig := n.Underlying().(*types.Signature); isSig {
			return shortPkg(n.Obj().Pkg().Path()) + "." + n.Obj().Name()
		}
	}
	return ""
}

func fieldFuncName0(u *ssa.UnOp) string {
	var v ssa.Value = u
	_ = v
	var ok bool
	fa, ok := u.X.(*ssa.FieldAddr)
	if !ok {
		return ""
	}
	st := derefType(fa.X.Type())
	s, ok := st.Underlying().(*types.Struct)
	if !ok {
		return ""
	}
	return typeKey(st) + "." + s.Field(fa.Field).Name()
}

// ifaceName picks the contract name for an interface method call: the static
// interface type of the receiver first (hash.Hash.Write), then the interface
// declaring the method (io.Writer.Write).
func (db *SpecDB) ifaceName(c *ssa.CallCommon) string {
	var first string
	if n, ok := c.Value.Type().(*types.Named); ok && n.Obj().Pkg() != nil {
		first = shortPkg(n.Obj().Pkg().Path()) + "." + n.Obj().Name() + "." + c.Method.Name()
		if db.byName[first] != nil {
			return first
		}
	}
	decl := ifaceMethodName(c)
	if db.byName[decl] != nil || first == "" {
		return decl
	}
	return first
}

func ifaceMethodName(c *ssa.CallCommon) string {
	m := c.Method
	recv := m.Type().(*types.Signature).Recv()
	if recv != nil {
		if n, ok := recv.Type().(*types.Named); ok && n.Obj().Pkg() != nil {
			return shortPkg(n.Obj().Pkg().Path()) + "." + n.Obj().Name() + "." + m.Name()
		}
	}
	if n, ok := c.Value.Type().(*types.Named); ok && n.Obj().Pkg() != nil {
		return shortPkg(n.Obj().Pkg().Path()) + "." + n.Obj().Name() + "." + m.Name()
	}
	if n, ok := c.Value.Type().(*types.Named); ok {
		return n.Obj().Name() + "." + m.Name() // universe: error.Error
	}
	return "iface." + m.Name()
}

func (vc *VC) noteOpaque(name string, c *ssa.CallCommon, what string) {
	if name == "" {
		name = "dynamic call " + c.Value.Name()
	}
	vc.warn("opaque call %s: %s", name, what)
}

func (fr *Frame) canInline(f *ssa.Function) bool {
	if len(f.Blocks) == 0 || fr.depth >= 4 {
		return false
	}
	if fc := fr.vc.specs.contractFor(funcName(f)); fc != nil && !fc.InlineCalls {
		return false
	}
	if f.Pkg == nil || !strings.HasPrefix(f.Pkg.Pkg.Path(), modulePrefix) {
		if !fr.vc.specs.inlineExtern[funcName(f)] {
			return false
		}
	}
	if len(f.Blocks) > 300 {
		return false
	}
	for p := fr; p != nil; p = p.parent {
		if p.fn == f {
			return false
		}
	}
	// no loops, no defers with recover, no go
	for _, b := range f.Blocks {
		for _, s := range b.Succs {
			if isBackEdge(b, s) {
				return false
			}
		}
		for _, in := range b.Instrs {
			switch in.(type) {
			case *ssa.Go, *ssa.Select:
				return false
			}
		}
	}
	return true
}

func (fr *Frame) inline(f *ssa.Function, ci *closureInfo, args []Term, st *State, pc Term) []Term {
	vc := fr.vc
	vc.inlined[funcName(f)] = true
	child := vc.newFrame(f, fr)
	for i, p := range f.Params {
		if i < len(args) {
			child.vals[p] = args[i]
		}
	}
	if len(fr.pendingArgLocs) > 0 && ci == nil {
		off := len(args) - len(f.Params)
		for i, l := range fr.pendingArgLocs {
			if j := i - off; j >= 0 && j < len(f.Params) {
				child.locs[f.Params[j]] = l
			}
		}
		fr.argLocsUsed = true
	}
	fr.pendingArgLocs = nil
	if ci != nil {
		for i, fv := range f.FreeVars {
			b := ci.bindings[i]
			if l, ok := fr.locs[b]; ok {
				child.freeLocs[fv] = l
			} else if ofv, ok := b.(*ssa.FreeVar); ok {
				child.freeLocs[fv] = fr.addr(ofv)
			} else {
				child.freeLocs[fv] = vc.refLoc(fr.val(b), derefType(b.Type()))
			}
		}
	}
	child.entry = st.clone()
	work := st.clone()
	child.run(work, pc)
	if len(child.rets) == 0 {
		// never returns (always panics): the continuation is unreachable
		vc.assume(pc, tFalse)
		var res []Term
		for i := 0; i < f.Signature.Results().Len(); i++ {
			res = append(res, vc.fresh("nores", vc.sortOf(f.Signature.Results().At(i).Type())))
		}
		return res
	}
	var states []*State
	var conds []Term
	for _, r := range child.rets {
		states = append(states, r.st)
		conds = append(conds, r.guard)
	}
	// drop the callee's own cells before merging back
	for _, s := range states {
		for k := range s.cells {
			if a, ok := k.(*ssa.Alloc); ok && a.Parent() == f {
				delete(s.cells, k)
			}
			if dk, ok := k.(deferKey); ok && dk.d.Parent() == f {
				delete(s.cells, k)
			}
		}
	}
	merged := vc.mergeStates(states, conds, fmt.Sprintf("ret:f%d", child.id))
	// paths on which the callee does not return are not continued
	if len(child.rets) > 0 {
		vc.assume(pc, or(conds...))
	}
	*st = *merged
	n := f.Signature.Results().Len()
	res := make([]Term, n)
	for i := 0; i < n; i++ {
		var vs []Term
		for _, r := range child.rets {
			vs = append(vs, r.results[i])
		}
		res[i] = vc.mergeTerms(vs, conds, fmt.Sprintf("retv:f%d:%d", child.id, i))
	}
	return res
}

// specEnv builds the evaluation environment for clauses of the function being
// verified, at the given state.
func (fr *Frame) specEnv(st *State, pc Term) *Env {
	vc := fr.vc
	env := &Env{vc: vc, vars: map[string]TV{}, st: st, old: fr.entry, fr: fr}
	env.capOld = len(fr.fn.FreeVars) > 0
	if fr.fn.Pkg != nil {
		env.pkg = fr.fn.Pkg.Pkg
		env.pkgKey = shortPkg(fr.fn.Pkg.Pkg.Path())
	} else if fr.fn.Parent() != nil && fr.fn.Parent().Pkg != nil {
		env.pkg = fr.fn.Parent().Pkg.Pkg
		env.pkgKey = shortPkg(env.pkg.Path())
	}
	return env
}

// modularCall: assert requires, havoc the write set, assume ensures.
func (fr *Frame) modularCall(fc *FuncContract, callee *ssa.Function, c *ssa.CallCommon, args []Term, argTypes []types.Type, sig *types.Signature, st *State, pc Term, site string) []Term {
	vc := fr.vc
	if fc.IsExtern || fc.IsIface || fc.Opaque {
		vc.trusted[fc.Pkg+"."+fc.Name] = true
	}
	pre := st.clone()
	env := &Env{vc: vc, vars: map[string]TV{}, st: pre, old: pre, pkgKey: fc.Pkg}
	if pp := vc.prog.PPkg[modulePrefix+fc.Pkg]; pp != nil {
		env.pkg = pp.Types
	} else if callee != nil && callee.Pkg != nil {
		env.pkg = callee.Pkg.Pkg
	} else if fr.fn.Pkg != nil {
		env.pkg = fr.fn.Pkg.Pkg
	}
	isClosure := c != nil && fr.closures[c.Value] != nil
	if isClosure {
		// clauses of a closure contract may name captured variables: they are
		// the caller's own locals
		env.fr = fr
		env.capOld = true
	}
	// parameter names
	names := calleeParamNames(fc, callee, c, sig)
	for i, n := range names {
		if i < len(args) && n != "" && n != "_" {
			env.vars[n] = TV{args[i], argTypes[i]}
		}
	}
	for i := range args {
		env.vars[fmt.Sprintf("arg%d", i)] = TV{args[i], argTypes[i]}
	}
	for _, r := range fc.Requires {
		vc.obligeClause("pre", r.Label, site+":"+labelOr(r.Label, "requires"), pc, env, r)
	}
	// write set
	if fc.Pure {
		// nothing changes, but the call may allocate its results
		if len(fc.Fresh) > 0 {
			vc.bumpWatermark(st)
			vc.assume(pc, lt(pre.wm, st.wm))
		}
	} else if fc.HasMod {
		regs, err := vc.evalRegions(env, fc.Modifies)
		if err != nil {
			vc.specError(&Clause{Src: "modifies of " + fc.Name}, err)
			vc.havocAllHeaps(st)
		} else {
			vc.havocRegions(st, pre, regs, pc)
			vc.bumpWatermark(st)
		}
	} else if callee != nil && len(callee.Blocks) > 0 && !fc.IsExtern {
		eff := vc.effectsOf(callee)
		vc.noKeepOld = fc.Mutates
		defer func() { vc.noKeepOld = false }()
		if eff.top {
			vc.havocAllHeaps(st)
			for _, h := range eff.sorted() {
				if vc.specs.isPrivateHeap(h) || vc.specs.isImmutableHeap(h) || vc.specs.isSetGhostHeap(h) {
					vc.havocHeapKeepOld(st, pre, h, pc)
				}
			}
		} else {
			vc.bumpWatermark(st)
			for _, h := range eff.sorted() {
				vc.havocHeapKeepOld(st, pre, h, pc)
			}
		}
	} else {
		vc.havocAllHeaps(st)
	}
	// ghosts the callee assigns with set clauses change during the call
	for _, n := range fc.setGhosts() {
		if g := vc.specs.ghost(n); g != nil && !g.IsMap {
			vc.heap(st, g.heapName(), g.sort())
			vc.havocHeap(st, g.heapName())
		}
	}
	if len(fc.Allocates) > 0 {
		vc.havocNewObjects(st, pre, fc, pc)
	}
	if !fc.Pure {
		if callee == nil || fr.mayRunLocalClosure(c) || fr.closures[c.Value] != nil {
			fr.havocCaptured(st, pc)
		}
	}
	// results
	nres := sig.Results().Len()
	res := make([]Term, nres)
	post := &Env{vc: vc, vars: map[string]TV{}, st: st, old: pre, pkg: env.pkg, pkgKey: fc.Pkg}
	if isClosure {
		post.fr = fr
		post.capOld = true
	}
	for k, v := range env.vars {
		post.vars[k] = v
	}
	for i := 0; i < nres; i++ {
		rt := sig.Results().At(i).Type()
		if fc.Deterministic && scalarArgs(args) {
			var as, ss []string
			for _, a := range args {
				as = append(as, a.S)
				ss = append(ss, a.Sort)
			}
			fname := quote(fmt.Sprintf("det:%s.%s#%d", fc.Pkg, fc.Name, i))
			rs := vc.sortOf(rt)
			vc.declare("det:"+fname, fmt.Sprintf("(declare-fun %s (%s) %s)", fname, strings.Join(ss, " "), rs))
			app := Term{"(" + fname + " " + strings.Join(as, " ") + ")", rs}
			if len(as) == 0 {
				app = Term{fname, rs}
			}
			res[i] = vc.def("res:"+shortCallee(fc.Name), app)
			vc.assume(pc, vc.typeFacts(res[i], rt, st.wm))
		} else {
			res[i] = fr.freshTyped("res:"+shortCallee(fc.Name), rt, st, pc)
		}
		post.vars[fmt.Sprintf("result%d", i)] = TV{res[i], rt}
		if n := sig.Results().At(i).Name(); n != "" && n != "_" {
			post.vars[n] = TV{res[i], rt}
		}
	}
	if nres == 1 {
		post.vars["result"] = TV{res[0], sig.Results().At(0).Type()}
	}
	vc.atCalleeEnsures = shortCallee(fc.Name)
	for _, e := range fc.Ensures {
		// The channel-operation ghosts are per-activation counters: they count
		// the operations the function under verification executes in its own
		// body. What a callee's contract says about its own counters means
		// nothing to a caller. (Clauses about names bound by the callee's own
		// "let" clauses are dropped like clauses naming callee locals.)
		if mentionsAny(e.Src, chanGhostNames) {
			continue
		}
		vc.assumeClause(pc, post, e)
	}
	vc.atCalleeEnsures = ""
	for _, fname := range fc.Fresh {
		if tv, ok := post.vars[fname]; ok {
			ref := tv.T
			if ref.Sort == SSlice {
				ref = sBase(ref)
			}
			// a fresh result is nil or was allocated by the call
			vc.assume(pc, or(eq(ref, tZero), and(le(pre.wm, ref), lt(ref, st.wm))))
		}
	}
	return res
}

// mentionsAny reports whether the clause text uses one of the names as an
// identifier.
func mentionsAny(src string, names []string) bool {
	for _, n := range names {
		from := 0
		for {
			k := strings.Index(src[from:], n)
			if k < 0 {
				break
			}
			a, b := from+k, from+k+len(n)
			okL := a == 0 || !isIdentByte(src[a-1])
			okR := b == len(src) || !isIdentByte(src[b])
			if okL && okR {
				return true
			}
			from = b
		}
	}
	return false
}

func isIdentByte(c byte) bool {
	return c == '_' || (c >= '0' && c <= '9') || (c >= 'a' && c <= 'z') || (c >= 'A' && c <= 'Z') || c >= 0x80
}

// scalarArgs reports whether all arguments are heap-independent values.
func scalarArgs(args []Term) bool {
	for _, a := range args {
		if a.Sort != SInt && a.Sort != SBool && a.Sort != SStr {
			return false
		}
	}
	return true
}

func calleeParamNames(fc *FuncContract, callee *ssa.Function, c *ssa.CallCommon, sig *types.Signature) []string {
	var names []string
	if len(fc.Params) > 0 {
		return fc.Params
	}
	if callee != nil {
		for _, p := range callee.Params {
			names = append(names, p.Name())
		}
		if len(callee.Params) > 0 || len(callee.Blocks) > 0 {
			return names
		}
	}
	if c != nil && c.IsInvoke() {
		names = append(names, "self")
	} else if sig.Recv() != nil {
		names = append(names, sig.Recv().Name())
	}
	for i := 0; i < sig.Params().Len(); i++ {
		names = append(names, sig.Params().At(i).Name())
	}
	return names
}

// havocNewObjects implements the "allocates" directive: the call creates and
// initialises new objects. The heaps that hold objects of the listed struct
// types ("*": every heap indexed by references) get new versions that agree
// with the old ones on every object that existed before the call; only what
// lies at or above the old watermark is unconstrained (to be described by the
// callee's ensures clauses).
func (vc *VC) havocNewObjects(st, pre *State, fc *FuncContract, pc Term) {
	all := false
	var prefixes []string
	for _, a := range fc.Allocates {
		if a == "*" {
			all = true
			continue
		}
		if !strings.Contains(a, "/") && fc.Pkg != "" {
			a = fc.Pkg + "." + a
		}
		prefixes = append(prefixes, "H:"+a+".")
	}
	if st.wm.S == pre.wm.S {
		vc.bumpWatermark(st)
	}
	for _, h := range vc.sortedHeapNames() {
		info := vc.heapInfo[h]
		if info == nil || !hasPrefix(info.Sort, "(Array Int ") || vc.errGlobals[h] || strings.HasPrefix(h, "|GH:") || strings.HasPrefix(h, "|G:") {
			continue
		}
		match := all
		for _, p := range prefixes {
			if strings.HasPrefix(strings.Trim(h, "|"), p) {
				match = true
			}
		}
		if !match {
			continue
		}
		old := vc.heap(pre, h, info.Sort)
		if cur := vc.heap(st, h, info.Sort); cur.S != old.S {
			// already given a new version by the write set: leave it
			continue
		}
		vc.havocHeap(st, h)
		vc.assume(pc, vc.frameFormula(st.heaps[h], old, h, nil, pre.wm))
		vc.recordFrame(st.heaps[h], old, pre.wm, pc, nil)
	}
}

func (vc *VC) specError(cl *Clause, err error) {
	msg := fmt.Sprintf("contract error in %q: %v", cl.Src, err)
	if strings.Contains(err.Error(), "unknown identifier") && vc.atCalleeEnsures != "" {
		// An ensures clause of a callee that names one of the callee's own
		// locals cannot be stated at a call site: the caller simply does not
		// learn it (fewer assumptions: sound).
		vc.warn("%s: clause of callee %s not usable at call sites (%v): %s", funcName(vc.fn), vc.atCalleeEnsures, err, cl.Src)
		return
	}
	if strings.Contains(err.Error(), "unknown identifier") {
		// The clause names a variable that no longer exists in the function:
		// the proof no longer covers the code. Reported as a failed binding
		// obligation (a violation without a failing input), not as an
		// infrastructure error; the clause itself is dropped.
		if !vc.declared["binding:"+msg] {
			vc.declared["binding:"+msg] = true
			vc.oblige("binding", "binding", "clause", tTrue, tFalse, msg)
		}
		return
	}
	for _, e := range vc.errs {
		if e == msg {
			return
		}
	}
	vc.errs = append(vc.errs, msg)
}

// --------------------------------------------------------------- builtins

func (fr *Frame) builtin(in ssa.Instruction, b *ssa.Builtin, c *ssa.CallCommon, st *State, pc Term) []Term {
	vc := fr.vc
	switch b.Name() {
	case "len", "cap":
		x := fr.val(c.Args[0])
		switch u := c.Args[0].Type().Underlying().(type) {
		case *types.Slice:
			if b.Name() == "len" {
				return []Term{sLen(x)}
			}
			return []Term{sCap(x)}
		case *types.Basic:
			return []Term{T(SInt, "(slen %s)", x.S)}
		case *types.Map:
			ml := vc.heap(st, mapLenName(c.Args[0].Type()), arraySort(SInt, SInt))
			v := vc.def("maplen", ite(eq(x, tZero), tZero, sel(ml, x)))
			vc.assume(pc, le(tZero, v))
			return []Term{v}
		case *types.Array:
			return []Term{intLit(u.Len())}
		case *types.Pointer:
			if a, ok := u.Elem().Underlying().(*types.Array); ok {
				return []Term{intLit(a.Len())}
			}
		case *types.Chan:
			v := vc.fresh("chanlen", SInt)
			vc.assume(pc, le(tZero, v))
			return []Term{v}
		}
	case "copy":
		return []Term{fr.copyBuiltin(c, st, pc)}
	case "append":
		return []Term{fr.appendBuiltin(c, st, pc)}
	case "min", "max":
		r := fr.val(c.Args[0])
		for _, a := range c.Args[1:] {
			r = T(SInt, "(i%s %s %s)", b.Name(), r.S, fr.val(a).S)
		}
		return []Term{r}
	case "delete":
		fr.mapDelete(c, st, pc)
		return nil
	case "panic":
		return nil
	case "print", "println":
		return nil
	case "close":
		// ghost counter of close operations (only if a contract declares it)
		if len(c.Args) == 1 {
			vc.chanCount("chcloses", fr.val(c.Args[0]), tTrue, st)
		}
		return nil
	case "recover":
		return []Term{fr.freshTyped("recover", types.NewInterfaceType(nil, nil), st, pc)}
	case "ssa:wrapnilchk":
		x := fr.val(c.Args[0])
		vc.oblige("nil", "safety", "wrapnilchk", pc, not(eq(x, tZero)), "nil receiver")
		return []Term{x}
	case "ssa:deferstack":
		return []Term{tZero}
	case "clear":
		vc.havocAllHeaps(st)
		return nil
	}
	vc.warn("%s: builtin %s not modelled", fr.fn.Name(), b.Name())
	vc.havocAllHeaps(st)
	sig := c.Signature()
	var res []Term
	for i := 0; i < sig.Results().Len(); i++ {
		res = append(res, fr.freshTyped("bi", sig.Results().At(i).Type(), st, pc))
	}
	return res
}

// copyBuiltin models copy(dst, src): n = min(len), dst[0..n) = old src[0..n),
// nothing else changes.
func (fr *Frame) copyBuiltin(c *ssa.CallCommon, st *State, pc Term) Term {
	vc := fr.vc
	dst := fr.val(c.Args[0])
	src := fr.val(c.Args[1])
	elem := c.Args[0].Type().Underlying().(*types.Slice).Elem()
	es := vc.sortOf(elem)
	hname := elemHeapName(elem)
	hs := arraySort(SInt, arraySort(SInt, es))
	h := vc.heap(st, hname, hs)
	var n Term
	srcAt := func(j string) string { return "" }
	if src.Sort == SStr {
		n = vc.def("copied", T(SInt, "(imin %s (slen %s))", sLen(dst).S, src.S))
		srcAt = func(j string) string { return fmt.Sprintf("(sat %s %s)", src.S, j) }
	} else {
		n = vc.def("copied", T(SInt, "(imin %s %s)", sLen(dst).S, sLen(src).S))
		srcAt = func(j string) string {
			return fmt.Sprintf("(select (select %s %s) (+ %s %s))", h.S, sBase(src).S, sOff(src).S, j)
		}
	}
	vc.deltas = append(vc.deltas, n)
	newArr := vc.fresh("copyarr", arraySort(SInt, es))
	oldArr := sel(h, sBase(dst))
	// inside [off, off+n): copied; outside: unchanged
	vc.assume(pc, T(SBool, "(forall ((j Int)) (! (= (select %s j) (ite (and (<= %s j) (< j (+ %s %s))) %s (select %s j))) :pattern ((select %s j))))",
		newArr.S, sOff(dst).S, sOff(dst).S, n.S, srcAt("(- j "+sOff(dst).S+")"), oldArr.S, newArr.S))
	st.heaps[hname] = vc.def("h", ite(lt(tZero, n), store(h, sBase(dst), newArr), h))
	return n
}

// appendBuiltin models append(s, elems...) where the second argument is the
// slice of new elements.
func (fr *Frame) appendBuiltin(c *ssa.CallCommon, st *State, pc Term) Term {
	vc := fr.vc
	s := fr.val(c.Args[0])
	if len(c.Args) == 1 {
		return s
	}
	add2 := fr.val(c.Args[1])
	elem := c.Args[0].Type().Underlying().(*types.Slice).Elem()
	es := vc.sortOf(elem)
	hname := elemHeapName(elem)
	hs := arraySort(SInt, arraySort(SInt, es))
	h := vc.heap(st, hname, hs)
	var m Term
	var srcAt func(j string) string
	if add2.Sort == SStr {
		m = T(SInt, "(slen %s)", add2.S)
		srcAt = func(j string) string { return fmt.Sprintf("(sat %s %s)", add2.S, j) }
	} else {
		m = sLen(add2)
		srcAt = func(j string) string {
			return fmt.Sprintf("(select (select %s %s) (+ %s %s))", h.S, sBase(add2).S, sOff(add2).S, j)
		}
	}
	m = vc.def("appn", m)
	newLen := vc.def("applen", add(sLen(s), m))
	inPlace := vc.def("inplace", le(newLen, sCap(s)))
	// fresh backing array for the reallocating case
	nb := vc.allocRef(st, pc)
	vc.assumeRType(pc, nb, c.Args[0].Type())
	ncap := vc.fresh("appcap", SInt)
	vc.assume(pc, le(newLen, ncap))
	res := vc.def("app", ite(inPlace, mkSlice(sBase(s), sOff(s), newLen, sCap(s)), mkSlice(nb, tZero, newLen, ncap)))
	newArr := vc.fresh("apparr", arraySort(SInt, es))
	oldArr := sel(h, sBase(s))
	// in place: positions [off+len, off+len+m) get the new elements, others unchanged
	// fresh: positions [0,len) copy the old elements, [len, len+m) the new ones
	vc.assume(pc, T(SBool, "(forall ((j Int)) (! (= (select %s j) (ite %s (ite (and (<= (+ %s %s) j) (< j (+ %s %s))) %s (select %s j)) (ite (and (<= 0 j) (< j %s)) (select %s (+ %s j)) (ite (and (<= %s j) (< j %s)) %s %s)))) :pattern ((select %s j))))",
		newArr.S, inPlace.S,
		sOff(s).S, sLen(s).S, sOff(s).S, newLen.S, srcAt(fmt.Sprintf("(- j (+ %s %s))", sOff(s).S, sLen(s).S)), oldArr.S,
		sLen(s).S, oldArr.S, sOff(s).S,
		sLen(s).S, newLen.S, srcAt(fmt.Sprintf("(- j %s)", sLen(s).S)), vc.zero(elem).S,
		newArr.S))
	st.heaps[hname] = vc.def("h", store(h, sBase(res), newArr))
	return res
}

// --------------------------------------------------------------- maps

func (fr *Frame) mapHeaps(st *State, mt types.Type) (has, val, ln Term, ks, vs Sort) {
	vc := fr.vc
	m := mt.Underlying().(*types.Map)
	ks, vs = vc.sortOf(m.Key()), vc.sortOf(m.Elem())
	has = vc.heap(st, mapHasName(mt), arraySort(SInt, arraySort(ks, SBool)))
	val = vc.heap(st, mapValName(mt), arraySort(SInt, arraySort(ks, vs)))
	ln = vc.heap(st, mapLenName(mt), arraySort(SInt, SInt))
	return
}

func (fr *Frame) makeMap(in *ssa.MakeMap, st *State, pc Term) {
	vc := fr.vc
	ref := vc.allocRef(st, pc)
	vc.assumeRType(pc, ref, in.Type())
	has, _, ln, ks, _ := fr.mapHeaps(st, in.Type())
	st.heaps[mapHasName(in.Type())] = vc.def("h", store(has, ref, Term{fmt.Sprintf("((as const %s) false)", arraySort(ks, SBool)), arraySort(ks, SBool)}))
	st.heaps[mapLenName(in.Type())] = vc.def("h", store(ln, ref, tZero))
	fr.vals[in] = ref
}

func (fr *Frame) lookup(in *ssa.Lookup, st *State, pc Term) {
	vc := fr.vc
	x := fr.val(in.X)
	k := fr.val(in.Index)
	if _, ok := in.X.Type().Underlying().(*types.Map); !ok {
		// string index
		vc.oblige("bounds", "safety", "strindex", pc, and(le(tZero, k), lt(k, T(SInt, "(slen %s)", x.S))), "string index in range")
		v := vc.def(fr.name(in), T(SInt, "(sat %s %s)", x.S, k.S))
		vc.assume(pc, and(le(tZero, v), le(v, intLit(255))))
		fr.vals[in] = v
		return
	}
	mt := in.X.Type()
	has, val, _, _, _ := fr.mapHeaps(st, mt)
	elem := mt.Underlying().(*types.Map).Elem()
	present := vc.def(fr.name(in)+":has", and(not(eq(x, tZero)), sel(sel(has, x), k)))
	v := vc.def(fr.name(in), ite(present, sel(sel(val, x), k), vc.zero(elem)))
	vc.assume(pc, vc.typeFacts(v, elem, st.wm))
	if in.CommaOk {
		fr.tuples[in] = []Term{v, present}
		return
	}
	fr.vals[in] = v
}

func (fr *Frame) mapUpdate(in *ssa.MapUpdate, st *State, pc Term) {
	vc := fr.vc
	m := fr.val(in.Map)
	k := fr.val(in.Key)
	v := fr.val(in.Value)
	mt := in.Map.Type()
	vc.oblige("nil", "safety", "mapassign", pc, not(eq(m, tZero)), "assignment to entry in nil map")
	has, val, ln, _, _ := fr.mapHeaps(st, mt)
	was := sel(sel(has, m), k)
	st.heaps[mapLenName(mt)] = vc.def("h", store(ln, m, add(sel(ln, m), ite(was, tZero, intLit(1)))))
	st.heaps[mapHasName(mt)] = vc.def("h", store(has, m, store(sel(has, m), k, tTrue)))
	st.heaps[mapValName(mt)] = vc.def("h", store(val, m, store(sel(val, m), k, v)))
}

func (fr *Frame) mapDelete(c *ssa.CallCommon, st *State, pc Term) {
	vc := fr.vc
	m := fr.val(c.Args[0])
	k := fr.val(c.Args[1])
	mt := c.Args[0].Type()
	has, _, ln, _, _ := fr.mapHeaps(st, mt)
	was := and(not(eq(m, tZero)), sel(sel(has, m), k))
	st.heaps[mapLenName(mt)] = vc.def("h", ite(was, store(ln, m, sub(sel(ln, m), intLit(1))), ln))
	st.heaps[mapHasName(mt)] = vc.def("h", ite(was, store(has, m, store(sel(has, m), k, tFalse)), has))
}

// rangeKey keys the ghost "visited" set of a map range in State.cells.
type rangeKey struct{ r *ssa.Range }

func (k rangeKey) Name() string                  { return "visited:" + k.r.Name() }
func (k rangeKey) String() string                { return k.Name() }
func (k rangeKey) Type() types.Type              { return tBool }
func (k rangeKey) Parent() *ssa.Function         { return k.r.Parent() }
func (k rangeKey) Referrers() *[]ssa.Instruction { return nil }
func (k rangeKey) Pos() token.Pos                { return k.r.Pos() }

// rangeCountKey keys the ghost number of keys a map range has produced so
// far; rangeHas0Key the key set of the map when the range started.
type rangeCountKey struct{ rangeKey }

func (k rangeCountKey) Name() string   { return "visitedcount:" + k.r.Name() }
func (k rangeCountKey) String() string { return k.Name() }

type rangeHas0Key struct{ rangeKey }

func (k rangeHas0Key) Name() string   { return "rangekeys0:" + k.r.Name() }
func (k rangeHas0Key) String() string { return k.Name() }

func (fr *Frame) rangeInit(in *ssa.Range, st *State, pc Term) {
	vc := fr.vc
	if mt, ok := in.X.Type().Underlying().(*types.Map); ok {
		ks := vc.sortOf(mt.Key())
		st.cells[rangeKey{in}] = Term{fmt.Sprintf("((as const %s) false)", arraySort(ks, SBool)), arraySort(ks, SBool)}
		st.cells[rangeCountKey{rangeKey{in}}] = tZero
		has, _, _, _, _ := fr.mapHeaps(st, in.X.Type())
		st.cells[rangeHas0Key{rangeKey{in}}] = vc.def("rangekeys0", sel(has, fr.val(in.X)))
		fr.vals[in] = fr.val(in.X)
		return
	}
	// string range: position cell
	st.cells[rangeKey{in}] = tZero
	fr.vals[in] = fr.val(in.X)
}

func (fr *Frame) next(in *ssa.Next, st *State, pc Term) {
	vc := fr.vc
	rng, ok := in.Iter.(*ssa.Range)
	if !ok {
		fr.unsupported(in, st, pc, "Next on non-range")
		return
	}
	key := rangeKey{rng}
	if in.IsString {
		s := fr.val(rng.X)
		pos, live := st.cells[key]
		if !live {
			pos = vc.fresh("strpos", SInt)
		}
		okT := vc.def(fr.name(in)+":ok", lt(pos, T(SInt, "(slen %s)", s.S)))
		r := vc.fresh("rune", SInt)
		w := vc.fresh("runew", SInt)
		vc.assume(pc, and(le(intLit(1), w), le(w, intLit(4)), le(add(pos, w), T(SInt, "(slen %s)", s.S)), le(tZero, r), le(r, intLit(0x10FFFF))))
		// ASCII bytes decode to themselves with width 1
		vc.assume(pc, implies(and(okT, lt(T(SInt, "(sat %s %s)", s.S, pos.S), intLit(128))), and(eq(w, intLit(1)), eq(r, T(SInt, "(sat %s %s)", s.S, pos.S)))))
		vc.assume(pc, implies(and(okT, le(intLit(128), T(SInt, "(sat %s %s)", s.S, pos.S))), le(intLit(128), r)))
		st.cells[key] = vc.def("strpos", ite(okT, add(pos, w), pos))
		fr.tuples[in] = []Term{okT, pos, r}
		return
	}
	mt := rng.X.Type()
	m := fr.val(rng.X)
	mu := mt.Underlying().(*types.Map)
	has, val, ln, ks, _ := fr.mapHeaps(st, mt)
	visited, live := st.cells[key]
	if !live {
		visited = vc.fresh("visited", arraySort(ks, SBool))
	}
	count, cntLive := st.cells[rangeCountKey{key}]
	has0, has0Live := st.cells[rangeHas0Key{key}]
	okT := vc.fresh(fr.name(in)+":ok", SBool)
	k := fr.freshTyped(fr.name(in)+":k", mu.Key(), st, pc)
	isNil := eq(m, tZero)
	vc.assume(pc, implies(okT, and(not(isNil), sel(sel(has, m), k), not(sel(visited, k)))))
	qk := "(forall ((qk " + ks + ")) (=> (select (select " + has.S + " " + m.S + ") qk) (select " + visited.S + " qk)))"
	vc.assume(pc, implies(not(okT), or(isNil, Term{qk, SBool})))
	// (extensionality, stated for the solver) an exhausted range whose
	// produced keys are all keys of the map has produced exactly its key set
	qv := "(forall ((qk " + ks + ")) (=> (select " + visited.S + " qk) (select (select " + has.S + " " + m.S + ") qk)))"
	vc.assume(pc, implies(and(not(okT), not(isNil), Term{qv, SBool}), eq(visited, sel(has, m))))
	// a map of positive length holds at least one key
	wk := fr.freshTyped(fr.name(in)+":somekey", mu.Key(), st, pc)
	vc.assume(pc, implies(and(not(isNil), lt(tZero, sel(ln, m))), sel(sel(has, m), wk)))
	v := vc.def(fr.name(in)+":v", sel(sel(val, m), k))
	vc.assume(pc, implies(okT, vc.typeFacts(v, mu.Elem(), st.wm)))
	st.cells[key] = vc.def("visited", ite(okT, store(visited, k, tTrue), visited))
	// a map that holds a key is not empty; as long as the key set is the one
	// the range started with, every key is produced exactly once: the number
	// of keys produced so far is below len(m), and equals it when the range
	// is exhausted
	vc.assume(pc, implies(okT, le(intLit(1), sel(ln, m))))
	if cntLive && has0Live {
		same := eq(sel(has, m), has0)
		vc.assume(pc, le(tZero, count))
		vc.assume(pc, implies(and(same, okT), lt(count, sel(ln, m))))
		vc.assume(pc, implies(and(same, not(okT), not(isNil)), eq(count, sel(ln, m))))
		st.cells[rangeCountKey{key}] = vc.def("visitedcount", ite(okT, add(count, intLit(1)), count))
	}
	fr.tuples[in] = []Term{okT, k, v}
}

// --------------------------------------------------------------- channels

func (fr *Frame) send(in *ssa.Send, st *State, pc Term) {
	// "at call send assert ...": call-site assertions of the enclosing
	// contract on send statements (arg0 = channel, arg1 = value sent)
	if fr.top && fr.contract != nil {
		name := "builtin.send"
		fr.callOrd[name]++
		for _, cs := range fr.contract.CallSites {
			if cs.Clause.Kind != "callsite" || !calleeMatches(cs.Callee, name) {
				continue
			}
			if cs.Ordinal != 0 && cs.Ordinal != fr.callOrd[name] {
				continue
			}
			fr.csMatched[cs] = true
			env := fr.specEnv(st, pc)
			vars := map[string]TV{"arg0": {fr.val(in.Chan), in.Chan.Type()}, "arg1": {fr.val(in.X), in.X.Type()}}
			g, err := env.with(vars).evalBool(cs.Clause.E)
			if err != nil {
				fr.vc.specError(cs.Clause, err)
			} else {
				fr.vc.oblige("callsite", cs.Clause.Label, fmt.Sprintf("send#%d:%s", fr.callOrd[name], labelOr(cs.Clause.Label, "assert")), pc, g, cs.Clause.Src)
			}
		}
	}
	fr.vc.chanSendObligation(fr, in.Chan, fr.val(in.X), st, pc)
	fr.vc.chanCount("chsends", fr.val(in.Chan), tTrue, st)
	fr.vc.chanLast(fr.val(in.Chan), fr.val(in.X), tTrue, st)
}

// chanCount bumps the ghost counter map `name` at channel ch when cond holds.
// The maps chsends / chrecvs exist only if a contract file of the property
// declares them ("//@ ghost chsends map[int]int"); they count the send and the
// successful receive operations executed by the verified function itself (the
// operations of other goroutines are not part of a sequential execution), so
// contracts can state token disciplines such as "every successful receive is
// followed by exactly one send before returning".
func (vc *VC) chanCount(name string, ch Term, cond Term, st *State) {
	g := vc.specs.ghost(name)
	if g == nil || !g.IsMap || ch.Sort != SInt {
		return
	}
	h := vc.heap(st, g.heapName(), g.sort())
	cur := sel(h, ch)
	st.heaps[g.heapName()] = vc.def("h", store(h, ch, ite(cond, add(cur, intLit(1)), cur)))
}

// chanLast records the last value sent on ch in the ghost map chlast (if
// declared), for reference-like (integer-sorted) element values.
func (vc *VC) chanLast(ch, v Term, cond Term, st *State) {
	vc.chanLastNamed("chlast", ch, v, cond, st)
}

// chanLastNamed: chlast[ch] is the last value sent on ch, chlastrecv[ch] the
// last value successfully received from ch, by the verified function.
func (vc *VC) chanLastNamed(name string, ch, v Term, cond Term, st *State) {
	g := vc.specs.ghost(name)
	if g == nil || !g.IsMap || ch.Sort != SInt || v.Sort != SInt {
		return
	}
	h := vc.heap(st, g.heapName(), g.sort())
	st.heaps[g.heapName()] = vc.def("h", store(h, ch, ite(cond, v, sel(h, ch))))
}

func (fr *Frame) recv(in *ssa.UnOp, st *State, pc Term) {
	vc := fr.vc
	elem := in.X.Type().Underlying().(*types.Chan).Elem()
	v := fr.freshTyped("recv", elem, st, pc)
	vc.chanRecvAssume(fr, in.X, v, st, pc)
	if in.CommaOk {
		okT := vc.fresh("recvok", SBool)
		fr.tuples[in] = []Term{ite(okT, v, vc.zero(elem)), okT}
		vc.chanCount("chrecvs", fr.val(in.X), okT, st)
		vc.chanCount("chrecvsclosed", fr.val(in.X), not(okT), st)
		vc.chanLastNamed("chlastrecv", fr.val(in.X), v, okT, st)
		return
	}
	fr.vals[in] = v
	vc.chanCount("chrecvs", fr.val(in.X), tTrue, st)
	vc.chanLastNamed("chlastrecv", fr.val(in.X), v, tTrue, st)
}

func (fr *Frame) selectOp(in *ssa.Select, st *State, pc Term) {
	vc := fr.vc
	idx := vc.fresh("selidx", SInt)
	lo := tZero
	if !in.Blocking {
		lo = intLit(-1)
	}
	vc.assume(pc, and(le(lo, idx), lt(idx, intLit(int64(len(in.States))))))
	okT := vc.fresh("selok", SBool)
	res := []Term{idx, okT}
	for i, s := range in.States {
		if s.Dir == types.RecvOnly {
			elem := s.Chan.Type().Underlying().(*types.Chan).Elem()
			v := fr.freshTyped("selrecv", elem, st, pc)
			vc.chanRecvAssume(fr, s.Chan, v, st, and(pc, eq(idx, intLit(int64(i)))))
			vc.chanCount("chrecvs", fr.val(s.Chan), and(eq(idx, intLit(int64(i))), okT), st)
			vc.chanCount("chrecvsclosed", fr.val(s.Chan), and(eq(idx, intLit(int64(i))), not(okT)), st)
			vc.chanLastNamed("chlastrecv", fr.val(s.Chan), v, and(eq(idx, intLit(int64(i))), okT), st)
			res = append(res, v)
		} else {
			vc.chanSendObligation(fr, s.Chan, fr.val(s.Send), st, and(pc, eq(idx, intLit(int64(i)))))
			vc.chanCount("chsends", fr.val(s.Chan), eq(idx, intLit(int64(i))), st)
			vc.chanLast(fr.val(s.Chan), fr.val(s.Send), eq(idx, intLit(int64(i))), st)
		}
	}
	fr.tuples[in] = res
}

// chanSendObligation / chanRecvAssume implement declared channel invariants.
func (vc *VC) chanSendObligation(fr *Frame, ch ssa.Value, v Term, st *State, pc Term) {
	for _, ci := range vc.specs.chanInvs(fr, ch) {
		env := fr.specEnv(st, pc)
		g, err := env.with(map[string]TV{"v": {v, ch.Type().Underlying().(*types.Chan).Elem()}}).evalBool(ci.E)
		if err != nil {
			vc.specError(ci, err)
			continue
		}
		vc.oblige("chan-inv", ci.Label, "send:"+labelOr(ci.Label, "inv"), pc, g, ci.Src)
	}
}

func (vc *VC) chanRecvAssume(fr *Frame, ch ssa.Value, v Term, st *State, pc Term) {
	for _, ci := range vc.specs.chanInvs(fr, ch) {
		env := fr.specEnv(st, pc)
		g, err := env.with(map[string]TV{"v": {v, ch.Type().Underlying().(*types.Chan).Elem()}}).evalBool(ci.E)
		if err != nil {
			vc.specError(ci, err)
			continue
		}
		vc.assume(pc, g)
	}
}

// --------------------------------------------------------------- defers

func (fr *Frame) runDefers(st *State, pc Term) {
	vc := fr.vc
	var defers []*ssa.Defer
	for _, b := range fr.fn.Blocks {
		for _, in := range b.Instrs {
			if d, ok := in.(*ssa.Defer); ok {
				defers = append(defers, d)
			}
		}
	}
	if len(defers) == 0 {
		return
	}
	sort.SliceStable(defers, func(i, j int) bool {
		bi, bj := fr.blockIdx[defers[i].Block()], fr.blockIdx[defers[j].Block()]
		if bi != bj {
			return bi > bj
		}
		return instrIndex(defers[i]) > instrIndex(defers[j])
	})
	for _, d := range defers {
		flag, ok := st.cells[deferKey{d}]
		if !ok || flag.S == "false" {
			continue
		}
		// defers inside loops may run several times: not modelled precisely
		if fr.inLoop(d.Block()) {
			// the deferred call ran an unknown number of times with unknown
			// arguments: havoc what the callee may write (by heap name); its
			// ensures are not used. A callee with preconditions cannot be
			// checked this way: everything is havoced.
			eff := vc.callEffects(fr, &d.Call)
			hasPre := false
			if n := fr.deferCalleeName(&d.Call); n != "" {
				if fc := vc.specs.contractFor(n); fc != nil && len(fc.Requires) > 0 {
					hasPre = true
				}
			}
			branch := st.clone()
			if eff.top || hasPre {
				vc.warn("%s: defer inside a loop: heap havoced at function exit", fr.fn.Name())
				vc.havocAllHeaps(branch)
			} else {
				vc.warn("%s: defer inside a loop: effect set %s havoced at function exit", fr.fn.Name(), strings.Join(eff.sorted(), ","))
				preSt := st.clone()
				if len(eff.heaps) > 0 || eff.allocs {
					vc.bumpWatermark(branch)
				}
				for _, h := range eff.sorted() {
					vc.havocHeapKeepOld(branch, preSt, h, and(pc, flag))
				}
			}
			if eff.top || eff.callsUnknown {
				fr.havocCaptured(branch, and(pc, flag))
			}
			merged := vc.mergeStates([]*State{branch, st}, []Term{and(pc, flag), and(pc, not(flag))}, fmt.Sprintf("deferloop:f%d", fr.id))
			*st = *merged
			continue
		}
		if flag.S == "true" {
			fr.call(d, &d.Call, st, pc)
			continue
		}
		branch := st.clone()
		fr.call(d, &d.Call, branch, and(pc, flag))
		merged := vc.mergeStates([]*State{branch, st}, []Term{and(pc, flag), and(pc, not(flag))}, fmt.Sprintf("defer:f%d", fr.id))
		*st = *merged
	}
}

// deferCalleeName names the callee of a deferred call for contract lookup.
func (fr *Frame) deferCalleeName(c *ssa.CallCommon) string {
	if c.IsInvoke() {
		return fr.vc.specs.ifaceName(c)
	}
	if ci, ok := fr.closures[c.Value]; ok {
		return funcName(ci.fn)
	}
	if f := c.StaticCallee(); f != nil {
		return funcName(f)
	}
	return fieldFuncName(c.Value)
}

func instrIndex(in ssa.Instruction) int {
	for i, x := range in.Block().Instrs {
		if x == in {
			return i
		}
	}
	return -1
}

func (fr *Frame) inLoop(b *ssa.BasicBlock) bool {
	for _, li := range fr.loops {
		if li.body[b] {
			return true
		}
	}
	return false
}
