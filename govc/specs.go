package main

// SpecDB: all contracts known to a run (repository contract files plus the
// trusted extern table under /verif/govc/externs).

import (
	"bufio"
	"fmt"
	"go/types"
	"os"
	"path/filepath"
	"sort"
	"strings"

	"golang.org/x/tools/go/ssa"
)

type SpecDB struct {
	pkgs         map[string]*PkgContracts // short package path -> contracts ("" = externs)
	byName       map[string]*FuncContract // full govc name -> contract
	eff          *effectsCache
	inlineExtern map[string]bool
	chanInv      map[string][]*Clause // "pkg.Type.field" -> invariants over v
	files        []string
	ghosts       map[string]*Ghost
	immutable    map[string]bool // type keys ("pkg/path.Type")
	pkgInvs      map[string][]*Clause
	private      map[string]bool
	setGhostHeaps map[string]bool // lazily computed, see isSetGhostHeap
}

func newSpecDB() *SpecDB {
	return &SpecDB{pkgs: map[string]*PkgContracts{}, byName: map[string]*FuncContract{}, eff: &effectsCache{done: map[*ssa.Function]*EffectSet{}},
		inlineExtern: map[string]bool{}, chanInv: map[string][]*Clause{}, ghosts: map[string]*Ghost{}, immutable: map[string]bool{}, pkgInvs: map[string][]*Clause{}, private: map[string]bool{}}
}

func readSpecLines(path string) ([]string, error) {
	f, err := os.Open(path)
	if err != nil {
		return nil, err
	}
	defer f.Close()
	var lines []string
	sc := bufio.NewScanner(f)
	sc.Buffer(make([]byte, 1<<20), 1<<20)
	for sc.Scan() {
		l := strings.TrimSpace(sc.Text())
		if strings.HasPrefix(l, "//@") {
			lines = append(lines, l)
		}
	}
	return lines, sc.Err()
}

// loadRepoContracts reads zz_contracts_verif.go of every loaded repo package.
func (db *SpecDB) loadRepoContracts(p *Program) error {
	var paths []string
	for path := range p.PPkg {
		paths = append(paths, path)
	}
	sort.Strings(paths)
	for _, path := range paths {
		pp := p.PPkg[path]
		for _, f := range pp.GoFiles {
			if !strings.HasSuffix(f, "_verif.go") {
				continue
			}
			lines, err := readSpecLines(f)
			if err != nil {
				return err
			}
			if len(lines) == 0 {
				continue
			}
			key := shortPkg(path)
			pc, err := parseContractLines(key, lines)
			if err != nil {
				return fmt.Errorf("%s: %v", f, err)
			}
			db.add(key, pc)
			db.files = append(db.files, f)
		}
	}
	return nil
}

func (db *SpecDB) loadExterns(dir string) error {
	files, _ := filepath.Glob(filepath.Join(dir, "*.spec"))
	sort.Strings(files)
	for _, f := range files {
		lines, err := readSpecLines(f)
		if err != nil {
			return err
		}
		pc, err := parseContractLines("", lines)
		if err != nil {
			return fmt.Errorf("%s: %v", f, err)
		}
		for _, fc := range pc.Funcs {
			if !fc.IsIface {
				fc.IsExtern = true
			}
		}
		db.add("", pc)
		db.files = append(db.files, f)
	}
	return nil
}

// isImmutableHeap reports whether a heap holds fields of a type declared
// "immutable" in a contract file.
func (db *SpecDB) isImmutableHeap(heap string) bool {
	for t := range db.immutable {
		// fields of the type, and slices of pointers to it (plan lists)
		if strings.HasPrefix(heap, "|H:"+t+".") || heap == "|E:*"+t+"|" {
			return true
		}
		// maps owned by such objects (map[K]*T)
		if (strings.HasPrefix(heap, "|MH:map[") || strings.HasPrefix(heap, "|MV:map[") || strings.HasPrefix(heap, "|ML:map[")) && strings.HasSuffix(heap, "]*"+t+"|") {
			return true
		}
	}
	return false
}

// isPrivateHeap reports whether a heap holds fields of a struct type declared
// "private": only functions of its own package write them, so calls whose
// callee is unknown (interfaces, function values, other packages) leave them
// unchanged.
func (db *SpecDB) isPrivateHeap(heap string) bool {
	for t := range db.private {
		if strings.HasPrefix(heap, "|H:"+t+".") {
			return true
		}
	}
	return false
}

// isSetGhostHeap: the heap of a scalar ghost that some contract assigns with
// "set" clauses. Such a ghost is written by set clauses only: calls of unknown
// code leave it alone (they cannot execute set clauses unless they call back
// into functions under contract, which is assumed not to happen, as for
// private types).
func (db *SpecDB) isSetGhostHeap(heap string) bool {
	if db.setGhostHeaps == nil {
		db.setGhostHeaps = map[string]bool{}
		for _, fc := range db.byName {
			for _, n := range fc.setGhosts() {
				if g := db.ghosts[n]; g != nil && !g.IsMap {
					db.setGhostHeaps[g.heapName()] = true
				}
			}
		}
	}
	return db.setGhostHeaps[heap]
}

func (db *SpecDB) ghost(name string) *Ghost {
	return db.ghosts[name]
}

func (g *Ghost) heapName() string {
	if g.IsMap {
		return quote("GH:" + g.Name)
	}
	return quote("GG:" + g.Name)
}

func (g *Ghost) sort() Sort {
	s := SInt
	if g.Elem == "bool" {
		s = SBool
	}
	if g.Elem == "string" {
		s = SStr
	}
	if g.IsMap {
		return arraySort(SInt, s)
	}
	return s
}

func (db *SpecDB) add(key string, pc *PkgContracts) {
	for _, g := range pc.Ghosts {
		db.ghosts[g.Name] = g
	}
	db.pkgInvs[key] = append(db.pkgInvs[key], pc.PkgInvs...)
	for _, t := range pc.Private {
		if strings.Contains(t, "/") || key == "" {
			db.private[t] = true
		} else {
			db.private[key+"."+t] = true
		}
	}
	for _, t := range pc.Immutable {
		if strings.Contains(t, "/") || key == "" {
			db.immutable[t] = true
		} else {
			db.immutable[key+"."+t] = true
		}
	}
	for k, v := range pc.ChanInvs {
		full := k
		if key != "" {
			full = key + "." + k
		}
		db.chanInv[full] = append(db.chanInv[full], v...)
	}
	if old, ok := db.pkgs[key]; ok {
		for k, v := range pc.Funcs {
			if prev, ok := old.Funcs[k]; ok {
				prev.merge(v)
			} else {
				old.Funcs[k] = v
			}
		}
		for k, v := range pc.Macros {
			old.Macros[k] = v
		}
		for k, v := range pc.Lemmas {
			old.Lemmas[k] = v
		}
		old.Order = append(old.Order, pc.Order...)
	} else {
		db.pkgs[key] = pc
	}
	for name := range pc.Funcs {
		fc := db.pkgs[key].Funcs[name] // the merged contract when several blocks exist
		full := name
		if key != "" && !fc.IsIface && !fc.IsExtern {
			full = key + "." + name
		} else if key != "" && (fc.IsIface || fc.IsExtern) && strings.Count(strings.TrimPrefix(name, "(*"), ".") <= 1 {
			// "Type.field" (function-typed field) or "Iface.Method" of this package
			full = key + "." + name
		}
		db.byName[full] = fc
		if strings.HasPrefix(name, "chaninv ") {
			continue
		}
	}
}

func (db *SpecDB) contractFor(name string) *FuncContract {
	return db.byName[name]
}

func (db *SpecDB) macro(pkgKey, name string) *Macro {
	if k := strings.LastIndex(name, "."); k >= 0 {
		// qualified: pkgname.macro -> search packages whose last element matches
		q, n := name[:k], name[k+1:]
		for key, pc := range db.pkgs {
			if key == q || strings.HasSuffix(key, "/"+q) {
				if m, ok := pc.Macros[n]; ok {
					return m
				}
			}
		}
		return nil
	}
	if pc, ok := db.pkgs[pkgKey]; ok {
		if m, ok := pc.Macros[name]; ok {
			return m
		}
	}
	if pc, ok := db.pkgs[""]; ok {
		if m, ok := pc.Macros[name]; ok {
			return m
		}
	}
	return nil
}

func (db *SpecDB) macroPkg(pkgKey, name string) string {
	if k := strings.LastIndex(name, "."); k >= 0 {
		q, n := name[:k], name[k+1:]
		for key, pc := range db.pkgs {
			if key == q || strings.HasSuffix(key, "/"+q) {
				if _, ok := pc.Macros[n]; ok {
					return key
				}
			}
		}
	}
	if pc, ok := db.pkgs[pkgKey]; ok {
		if _, ok := pc.Macros[name]; ok {
			return pkgKey
		}
	}
	return ""
}

// chanInvs returns the invariants declared for the channel value ch, which
// must be a field load "x.f".
func (db *SpecDB) chanInvs(fr *Frame, ch ssa.Value) []*Clause {
	u, ok := ch.(*ssa.UnOp)
	if !ok {
		return nil
	}
	fa, ok := u.X.(*ssa.FieldAddr)
	if !ok {
		return nil
	}
	st := derefType(fa.X.Type())
	f := st.Underlying().(*types.Struct).Field(fa.Field)
	return db.chanInv[typeKey(st)+"."+f.Name()]
}
