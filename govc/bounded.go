package main

// Bounded stand-ins and the `govc replay` command.
//
// A bounded stand-in executes a contract as a Go oracle against the REAL
// functions of the repository over an enumerated input space with a stated
// bound. It is used only where the deductive route cannot reach a function
// (DESIGN.md 2.9); its results are labelled bounded, reported separately from
// the discharged obligations and never counted as proved.
//
// A stand-in is a Go test file under /verif/bounded/ that is injected into
// the package named by its `// pkgdir:` header with `go test -overlay`
// (nothing is written to the repository) and run against the repository's
// current working tree. Protocol on stdout:
//
//	BOUNDED-RESULT evaluations=<n> distinct_nontrivial=<m> exhaustive=<true|false>
//	BOUNDED-BOUND <the bound, in words>
//	BOUNDED-RULE <how cases are enumerated and what counts as non-trivial>
//	BOUNDED-SAMPLE <one case, written out>            (a few)
//	BOUNDED-FAIL <a failing input, written out>       (each is a violation)
//
// The test reads VERIF_TIER (quick|thorough) to choose its bound and
// VERIF_SEED for any random choices.

import (
	"bytes"
	"context"
	"encoding/json"
	"fmt"
	"os"
	"os/exec"
	"path/filepath"
	"regexp"
	"strconv"
	"strings"
	"time"
)

type boundedRun struct {
	Template string
	Label    string
}

type boundedResult struct {
	Template    string   `json:"template"`
	Label       string   `json:"label"`
	Pkgdir      string   `json:"pkgdir"`
	Evaluations int      `json:"evaluations"`
	Distinct    int      `json:"distinct_nontrivial"`
	Exhaustive  bool     `json:"exhaustive"`
	Bound       string   `json:"bound"`
	Rule        string   `json:"rule"`
	Samples     []string `json:"samples"`
	Failures    []string `json:"failures"`
	WallS       float64  `json:"wall_s"`
	Status      string   `json:"status"` // ok | failed | infrastructure
	Output      string   `json:"-"`
	Source      string   `json:"-"`
}

func templatePkgdir(text string) string {
	for _, l := range strings.Split(text, "\n") {
		if strings.HasPrefix(l, "// pkgdir:") {
			return strings.TrimSpace(strings.TrimPrefix(l, "// pkgdir:"))
		}
	}
	return ""
}

// runOverlayTest injects source as zz_<kind>_test.go into repo/pkgdir through
// an overlay and runs the tests matching pattern.
func runOverlayTest(repo, pkgdir, source, pattern string, timeout time.Duration, env []string) (string, error) {
	dir, err := os.MkdirTemp("/var/tmp", "govc-overlay-")
	if err != nil {
		return "", err
	}
	defer os.RemoveAll(dir)
	testFile := filepath.Join(dir, "zz_govc_injected_test.go")
	if err := os.WriteFile(testFile, []byte(source), 0o644); err != nil {
		return "", err
	}
	ov := map[string]interface{}{"Replace": map[string]string{filepath.Join(repo, pkgdir, "zz_govc_injected_test.go"): testFile}}
	ovj, _ := json.Marshal(ov)
	ovFile := filepath.Join(dir, "overlay.json")
	os.WriteFile(ovFile, ovj, 0o644)
	ctx, cancel := context.WithTimeout(context.Background(), timeout+60*time.Second)
	defer cancel()
	cmd := exec.CommandContext(ctx, "go", "test", "-overlay", ovFile, "-vet=off", "-timeout", fmt.Sprintf("%ds", int(timeout.Seconds())), "-count=1", "-run", pattern, "-v", "./"+pkgdir)
	cmd.Dir = repo
	cmd.Env = append(os.Environ(), "GOFLAGS=-mod=mod", "GOPROXY=off", "GOTOOLCHAIN=local", "GOSUMDB=off", "MUTAGEN_DATA_DIRECTORY="+filepath.Join(dir, "data"))
	cmd.Env = append(cmd.Env, env...)
	var out bytes.Buffer
	cmd.Stdout, cmd.Stderr = &out, &out
	err = cmd.Run()
	return out.String(), err
}

func runBounded(verif, repo, tier string, seed int, br boundedRun) boundedResult {
	res := boundedResult{Template: br.Template, Label: br.Label, Status: "infrastructure"}
	start := time.Now()
	src, err := os.ReadFile(filepath.Join(verif, "bounded", br.Template))
	if err != nil {
		res.Output = "template missing: " + err.Error()
		return res
	}
	res.Source = string(src)
	res.Pkgdir = templatePkgdir(res.Source)
	if res.Pkgdir == "" {
		res.Output = "template has no `// pkgdir:` header"
		return res
	}
	timeout := 240 * time.Second
	if tier == "thorough" {
		timeout = 1800 * time.Second
	}
	out, runErr := runOverlayTest(repo, res.Pkgdir, res.Source, "^TestBounded", timeout,
		[]string{"VERIF_TIER=" + tier, "VERIF_SEED=" + strconv.Itoa(seed)})
	res.Output = out
	res.WallS = time.Since(start).Seconds()
	reRes := regexp.MustCompile(`BOUNDED-RESULT evaluations=(\d+) distinct_nontrivial=(\d+) exhaustive=(true|false)`)
	gotResult := false
	for _, l := range strings.Split(out, "\n") {
		l = strings.TrimSpace(l)
		// `go test -v` may prefix log lines with file:line; find the marker anywhere
		if i := strings.Index(l, "BOUNDED-"); i >= 0 {
			l = l[i:]
		} else {
			continue
		}
		switch {
		case strings.HasPrefix(l, "BOUNDED-RESULT"):
			if m := reRes.FindStringSubmatch(l); m != nil {
				n, _ := strconv.Atoi(m[1])
				d, _ := strconv.Atoi(m[2])
				res.Evaluations += n
				res.Distinct += d
				res.Exhaustive = m[3] == "true"
				gotResult = true
			}
		case strings.HasPrefix(l, "BOUNDED-BOUND "):
			res.Bound = strings.TrimSpace(res.Bound + " " + strings.TrimPrefix(l, "BOUNDED-BOUND "))
		case strings.HasPrefix(l, "BOUNDED-RULE "):
			res.Rule = strings.TrimSpace(res.Rule + " " + strings.TrimPrefix(l, "BOUNDED-RULE "))
		case strings.HasPrefix(l, "BOUNDED-SAMPLE "):
			if len(res.Samples) < 12 {
				res.Samples = append(res.Samples, strings.TrimPrefix(l, "BOUNDED-SAMPLE "))
			}
		case strings.HasPrefix(l, "BOUNDED-FAIL"):
			if len(res.Failures) < 10 {
				res.Failures = append(res.Failures, strings.TrimSpace(strings.TrimPrefix(l, "BOUNDED-FAIL")))
			}
		}
	}
	switch {
	case len(res.Failures) > 0:
		res.Status = "failed"
	case gotResult && runErr == nil && res.Evaluations > 0:
		res.Status = "ok"
	default:
		// build failure, panic, timeout, or a test that failed without naming
		// an input: nothing can be concluded
		res.Status = "infrastructure"
	}
	return res
}

// cmdReplay re-runs what a replay file records against the current tree:
// the injected Go test when the file carries one (counterexample replay or a
// bounded stand-in), otherwise the single failed obligation.
func cmdReplay(args []string) int {
	repo, verif := "/repo", "/verif"
	var path string
	for i := 0; i < len(args); i++ {
		switch args[i] {
		case "--repo":
			i++
			repo = args[i]
		case "--verif":
			i++
			verif = args[i]
		default:
			path = args[i]
		}
	}
	if path == "" {
		fmt.Fprintln(os.Stderr, "usage: govc replay [--repo DIR] [--verif DIR] <replay file>")
		return 2
	}
	data, err := os.ReadFile(path)
	if err != nil {
		fmt.Fprintln(os.Stderr, "govc replay:", err)
		return 2
	}
	var rec map[string]interface{}
	if err := json.Unmarshal(data, &rec); err != nil {
		fmt.Fprintln(os.Stderr, "govc replay:", err)
		return 2
	}
	str := func(k string) string { s, _ := rec[k].(string); return s }
	fmt.Printf("property:   %s\nobligation: %s\nclause:     %s\nstatus:     %s (recorded verdict: %s)\n", str("property"), str("obligation"), str("clause"), str("status"), str("verdict"))
	if src := str("go_test_source"); src != "" {
		pkgdir := str("pkgdir")
		if pkgdir == "" {
			pkgdir = templatePkgdir(src)
		}
		pattern := "^TestReplay"
		if strings.Contains(src, "func TestBounded") {
			pattern = "^TestBounded"
		}
		fmt.Printf("re-running the recorded Go test against %s (package %s) ...\n", repo, pkgdir)
		out, _ := runOverlayTest(repo, pkgdir, src, pattern, 600*time.Second, []string{"VERIF_TIER=" + strOr(str("tier"), "quick"), "VERIF_SEED=" + strOr(str("seed"), "0")})
		fmt.Println(out)
		if strings.Contains(out, "REPLAY-CONFIRMED") || strings.Contains(out, "BOUNDED-FAIL") {
			fmt.Println("replay verdict: the violation reproduces on the current tree")
			return 1
		}
		fmt.Println("replay verdict: not reproduced on the current tree")
		return 0
	}
	if so := str("solver_output"); so != "" {
		fmt.Printf("no failing input was recorded; solver output at the time:\n%s\n", truncate(so, 2000))
	}
	name := str("obligation")
	if strings.HasSuffix(name, ":binding") || str("property") == "" {
		fmt.Println(str("explanation"))
		return 1
	}
	fmt.Printf("re-checking the obligation on %s ...\n", repo)
	os.Setenv("GOVC_EVIDENCE_DIR", filepath.Join(verif, "out", "replay-evidence"))
	return cmdCheck([]string{"--property", str("property"), "--repo", repo, "--verif", verif, "--only", "^" + regexp.QuoteMeta(name) + "$", "-v"})
}

func strOr(s, d string) string {
	if s == "" {
		return d
	}
	return s
}
