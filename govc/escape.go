package main

// A small flow-sensitive escape rule: an object allocated by the function
// under verification (a struct literal / new(T)) whose address has not yet
// been handed to anything - no call argument, no conversion to an interface,
// no store of the pointer, no closure capture - cannot be reached by the code
// a call executes, so the call leaves its fields unchanged. Without this the
// havoc after a call to unknown code (logger, lock, interface method) would
// also forget the fields of a literal that was just built.

import (
	"go/token"
	"go/types"

	"golang.org/x/tools/go/ssa"
)

// escapingUses lists the instructions through which the address of the
// allocation (or of one of its fields) can become known to other code.
func escapingUses(a *ssa.Alloc) []ssa.Instruction {
	var out []ssa.Instruction
	var walk func(v ssa.Value)
	walk = func(v ssa.Value) {
		refs := v.Referrers()
		if refs == nil {
			return
		}
		for _, r := range *refs {
			switch r := r.(type) {
			case *ssa.DebugRef:
			case *ssa.Store:
				if r.Addr != v || r.Val == v {
					out = append(out, r) // the pointer itself is stored
				}
			case *ssa.UnOp:
				if r.Op != token.MUL {
					out = append(out, r)
				}
			case *ssa.FieldAddr:
				if r.X == v {
					walk(r)
				} else {
					out = append(out, r)
				}
			case *ssa.IndexAddr:
				if r.X == v {
					walk(r)
				} else {
					out = append(out, r)
				}
			default:
				out = append(out, r)
			}
		}
	}
	walk(a)
	return out
}

// unescapedAt reports whether every escaping use of the allocation can only
// execute after the given instruction (for the object of the current
// activation / iteration).
func (fr *Frame) unescapedAt(a *ssa.Alloc, in ssa.Instruction) bool {
	if fr.escUses == nil {
		fr.escUses = map[*ssa.Alloc][]ssa.Instruction{}
	}
	uses, ok := fr.escUses[a]
	if !ok {
		uses = escapingUses(a)
		fr.escUses[a] = uses
	}
	ib := in.Block()
	if ib == nil || a.Block() == nil {
		return false
	}
	for _, u := range uses {
		ub := u.Block()
		if ub == nil {
			return false
		}
		if ub == ib {
			if instrIndex(u) <= instrIndex(in) {
				return false
			}
		} else if !ib.Dominates(ub) {
			return false
		}
		// a loop that repeats both the call and the escaping use, but not the
		// allocation, lets the use of one iteration precede the call of the next
		for _, li := range fr.loops {
			if li.body[ib] && li.body[ub] && !li.body[a.Block()] {
				return false
			}
		}
	}
	return true
}

// restoreUnescaped gives the fields of the not-yet-escaped struct allocations
// of this frame the values they had before the call.
func (fr *Frame) restoreUnescaped(in ssa.Instruction, st, pre *State) {
	if _, isDefer := in.(*ssa.Defer); isDefer || in.Block() == nil {
		return
	}
	vc := fr.vc
	for _, b := range fr.fn.Blocks {
		for _, x := range b.Instrs {
			a, ok := x.(*ssa.Alloc)
			if !ok || fr.cellAlloc[a] {
				continue
			}
			ref, done := fr.vals[a]
			if !done {
				continue
			}
			elem := derefType(a.Type())
			if _, isStruct := elem.Underlying().(*types.Struct); !isStruct {
				continue
			}
			if !fr.unescapedAt(a, in) {
				continue
			}
			for _, h := range vc.zeroInitHeaps(elem) {
				cur, ok1 := st.heaps[h]
				was, ok2 := pre.heaps[h]
				if !ok1 || !ok2 || cur.S == was.S {
					continue
				}
				st.heaps[h] = vc.def("h", store(cur, ref, sel(was, ref)))
			}
		}
	}
}
