package main

// Per-function verification: entry state, preconditions, postconditions and
// frame obligations.

import (
	"fmt"
	"go/types"
	"strings"

	"golang.org/x/tools/go/ssa"
)

func newVC(prog *Program, specs *SpecDB, fn *ssa.Function, fc *FuncContract, heapInfo map[string]*HeapInfo) *VC {
	vc := &VC{prog: prog, specs: specs, fn: fn, contract: fc, declared: map[string]bool{}, refTerms: map[string]bool{}, heapInfo: heapInfo,
		trusted: map[string]bool{}, assumes: map[string]bool{}, inlined: map[string]bool{}, kindCount: map[string]int{},
		strConsts: map[string]string{}, typeTags: map[string]int{}, errGlobals: map[string]bool{}}
	if fn != nil {
		vc.fname = funcName(fn)
	}
	// datatype declarations discovered in earlier passes come first, so that
	// heap constants declared from remembered sorts can mention them
	if sd := sortDeclsFor[&heapInfoKey{}]; sd != nil {
		_ = sd
	}
	vc.sortDecls = persistFor(heapInfo)
	for _, d := range vc.sortDecls.lines {
		vc.decls = append(vc.decls, d)
	}
	for k := range vc.sortDecls.keys {
		vc.declared[k] = true
	}
	return vc
}

type heapInfoKey struct{}

var sortDeclsFor = map[*heapInfoKey]*persistDecls{}

// persistDecls keeps datatype declarations across the passes of one
// generate() call (keyed by the identity of the shared heapInfo map).
type persistDecls struct {
	lines []string
	keys  map[string]bool
}

var persistByMap = map[string]*persistDecls{}

func persistFor(m map[string]*HeapInfo) *persistDecls {
	key := fmt.Sprintf("%p", m)
	if p, ok := persistByMap[key]; ok {
		return p
	}
	p := &persistDecls{keys: map[string]bool{}}
	persistByMap[key] = p
	return p
}

// generate produces the obligations of one function under contract. The
// translation is repeated until the set of heaps it mentions is stable, so
// that every state carries every heap from the start.
func generate(prog *Program, specs *SpecDB, fn *ssa.Function, fc *FuncContract) *VC {
	heapInfo := map[string]*HeapInfo{}
	var vc *VC
	for pass := 0; pass < 6; pass++ {
		vc = newVC(prog, specs, fn, fc, heapInfo)
		vc.runTop()
		if !vc.newHeaps {
			break
		}
	}
	return vc
}

func (vc *VC) initialState() *State {
	st := &State{cells: map[ssa.Value]Term{}, heaps: map[string]Term{}}
	vc.declare("wm0", "(declare-const wm0 Int)\n(assert (> wm0 0))")
	st.wm = Term{"wm0", SInt}
	for _, n := range vc.sortedHeapNames() {
		info := vc.heapInfo[n]
		t := Term{quote(strings.Trim(n, "|") + "@0"), info.Sort}
		vc.declare("heap0:"+n, fmt.Sprintf("(declare-const %s %s)", t.S, info.Sort))
		st.heaps[n] = t
		vc.entryHeapFacts(info, t)
	}
	vc.errorSentinels(st)
	vc.constMapFacts(st)
	return st
}

// entryHeapFacts states, for heaps holding references, that everything stored
// in the entry heap was allocated before the call (is below the entry
// watermark) and is well formed for its type.
func (vc *VC) entryHeapFacts(info *HeapInfo, h Term) {
	if info.Typ == nil {
		return
	}
	switch info.Typ.Underlying().(type) {
	case *types.Pointer, *types.Slice, *types.Map, *types.Chan:
	default:
		return
	}
	wm0 := Term{"wm0", SInt}
	key := "entryfacts:" + info.Name
	switch info.Kind {
	case "field", "ptr":
		v := sel(h, Term{"er", SInt})
		vc.declare(key, fmt.Sprintf("(assert (forall ((er Int)) (! %s :pattern (%s))))", vc.typeFacts(v, info.Typ, wm0).S, v.S))
	case "elem":
		v := sel(sel(h, Term{"er", SInt}), Term{"ei", SInt})
		vc.declare(key, fmt.Sprintf("(assert (forall ((er Int) (ei Int)) (! %s :pattern (%s))))", vc.typeFacts(v, info.Typ, wm0).S, v.S))
	}
}

// errorSentinels: package-level error variables are treated as immutable,
// non-nil and pairwise distinct (they are initialised once by errors.New).
func (vc *VC) errorSentinels(st *State) {
	var names []string
	for _, n := range vc.sortedHeapNames() {
		if !strings.HasPrefix(n, "|G:") {
			continue
		}
		if vc.heapInfo[n].Sort != SInt {
			continue
		}
		if !vc.isErrorGlobal(n) {
			continue
		}
		names = append(names, n)
		vc.errGlobals[n] = true
	}
	if len(names) == 0 {
		return
	}
	vc.assumes["package-level error variables are never reassigned, non-nil and pairwise distinct"] = true
	var ts []string
	vc.declare("is_errvar", "(declare-fun is_errvar (Int) Bool)")
	for _, n := range names {
		t := st.heaps[n]
		vc.decls = append(vc.decls, fmt.Sprintf("(assert (> %s 0))", t.S))
		// errvar(x) in contracts: x is the value of a package-level error variable
		vc.decls = append(vc.decls, fmt.Sprintf("(assert (is_errvar %s))", t.S))
		ts = append(ts, t.S)
	}
	if len(ts) > 1 {
		vc.decls = append(vc.decls, "(assert (distinct "+strings.Join(ts, " ")+"))")
	}
}

func (vc *VC) isErrorGlobal(heap string) bool {
	name := strings.TrimSuffix(strings.TrimPrefix(heap, "|G:"), "|")
	k := strings.LastIndex(name, ".")
	if k < 0 {
		return false
	}
	pkg, v := name[:k], name[k+1:]
	for _, sp := range vc.prog.SSA.AllPackages() {
		if shortPkg(sp.Pkg.Path()) != pkg {
			continue
		}
		if g, ok := sp.Members[v].(*ssa.Global); ok {
			t := derefType(g.Type())
			if types.Identical(t, types.Universe.Lookup("error").Type()) {
				return true
			}
		}
	}
	return false
}

func (vc *VC) runTop() {
	fn := vc.fn
	fr := vc.newFrame(fn, nil)
	fr.top = true
	fr.contract = vc.contract
	st := vc.initialState()
	pc := tTrue
	// parameters
	for _, p := range fn.Params {
		v := Term{quote("p:" + p.Name()), vc.sortOf(p.Type())}
		vc.lines = append(vc.lines, fmt.Sprintf("(declare-const %s %s)", v.S, v.Sort))
		vc.assume(tTrue, vc.typeFacts(v, p.Type(), st.wm))
		fr.vals[p] = v
	}
	// captured variables of a closure under contract: unconstrained cells
	for _, fv := range fn.FreeVars {
		elem := derefType(fv.Type())
		st.cells[fv] = fr.freshTyped("fv:"+fv.Name(), elem, st, pc)
	}
	fr.entry = st.clone()
	vc.entry = fr.entry
	env := vc.topEnv(fr, st, nil)
	if vc.contract != nil {
		// package invariants: assumed everywhere except in the package's init,
		// which has to establish them
		if fn.Name() != "init" {
			for _, inv := range vc.specs.pkgInvs[vc.contract.Pkg] {
				vc.assumeClause(tTrue, env, inv)
				vc.assumes["package-level variables named in pkginv clauses of "+vc.contract.Pkg+" keep the values given by init (not written afterwards)"] = true
			}
		} else if fn.Pkg != nil {
			// the initialiser is verified for its one real run: the package's
			// "already initialised" guard is still false
			if g, ok := fn.Pkg.Members["init$guard"].(*ssa.Global); ok {
				l := vc.globalLoc(g.Pkg.Pkg.Path(), g.Name(), derefType(g.Type()))
				vc.assume(tTrue, not(vc.load(st, l)))
			}
		}
		for _, r := range vc.contract.Requires {
			vc.assumeClause(tTrue, env, r)
		}
		for _, es := range vc.contract.EntrySets {
			vc.ghostSet(env, st, es)
		}
		for _, u := range vc.contract.Uses {
			vc.useLemma(fr, env, vc.contract.Pkg, u)
		}
		for _, a := range vc.contract.Assumes {
			g, err := env.evalBool(a.E)
			if err != nil {
				vc.specError(a, err)
				continue
			}
			vc.assume(tTrue, g)
			vc.assumes["assume in "+vc.fname+": "+a.Src] = true
		}
	}
	// vacuity: the preconditions must be satisfiable, and a false assertion
	// placed right after them must not be provable.
	vc.cover("requires", tTrue)
	fr.entry = st.clone()
	vc.entry = fr.entry
	fr.run(st, pc)
	// a call-site clause that matched no call of the body binds nothing: the
	// call it was written for is gone (or the pattern is wrong)
	if vc.contract != nil {
		for _, cs := range vc.contract.CallSites {
			if !fr.csMatched[cs] && strings.TrimSpace(cs.Clause.Src) != "false" { // "assert false" is a prohibition: no call is the good case
				vc.oblige("binding", "binding", "callsite:"+cs.Callee, tTrue, tFalse, fmt.Sprintf("clause \"at call %s ...\" matches no call in the function body: %s", cs.Callee, cs.Clause.Src))
			}
		}
	}
	if fr.retCount == 0 && (vc.contract == nil || len(vc.contract.Ensures) > 0) {
		// a function that never returns normally has no postcondition to check
	}
}

// topEnv is the environment for clauses of the verified function: parameter
// names denote entry values.
func (vc *VC) topEnv(fr *Frame, st *State, results []Term) *Env {
	env := fr.specEnv(st, tTrue)
	env.old = fr.entry
	for _, p := range fr.fn.Params {
		env.vars[p.Name()] = TV{fr.vals[p], p.Type()}
	}
	sig := fr.fn.Signature
	if results != nil {
		for i, r := range results {
			rt := sig.Results().At(i).Type()
			env.vars[fmt.Sprintf("result%d", i)] = TV{r, rt}
			if n := sig.Results().At(i).Name(); n != "" && n != "_" {
				env.vars[n] = TV{r, rt}
			}
		}
		if len(results) == 1 {
			env.vars["result"] = TV{results[0], sig.Results().At(0).Type()}
		}
	}
	return env
}

// checkPost emits the postcondition and frame obligations at a return.
func (vc *VC) checkPost(fr *Frame, st *State, pc Term, res []Term) {
	fr.retCount++
	fc := vc.contract
	site := fmt.Sprintf("ret%d", fr.retCount)
	vc.cover(site, pc)
	if fc == nil {
		return
	}
	env := vc.topEnv(fr, st, res)
	for _, u := range fc.PostUses {
		vc.useLemmaGuarded(env, fc.Pkg, u, pc)
	}
	for _, e := range fc.Ensures {
		vc.obligeClause("post", e.Label, site+":"+labelOr(e.Label, "ensures"), pc, env, e)
	}
	if fr.fn.Name() == "init" {
		for _, inv := range vc.specs.pkgInvs[fc.Pkg] {
			vc.obligeClause("post", inv.Label, site+":"+inv.Label, pc, env, inv)
		}
	}
	for _, fname := range fc.Fresh {
		if tv, ok := env.vars[fname]; ok {
			ref := tv.T
			if ref.Sort == SSlice {
				ref = sBase(ref)
			}
			vc.oblige("post", "fresh", site+":fresh:"+fname, pc, or(eq(ref, tZero), and(le(fr.entry.wm, ref), lt(ref, st.wm))), "fresh "+fname+" (nil or allocated by this call)")
		}
	}
	if fc.HasMod || fc.Pure {
		entryEnv := vc.topEnv(fr, fr.entry, nil)
		regs, err := vc.evalRegions(entryEnv, fc.Modifies)
		if err != nil {
			vc.specError(&Clause{Src: "modifies"}, err)
			return
		}
		for _, h := range vc.sortedHeapNames() {
			if vc.errGlobals[h] {
				continue
			}
			info := vc.heapInfo[h]
			cur := vc.heap(st, h, info.Sort)
			was := vc.heap(fr.entry, h, info.Sort)
			if cur.S == was.S {
				continue
			}
			vc.oblige("frame", "frame", site+":"+heapShort(h), pc, vc.frameFormula(cur, was, h, regs, fr.entry.wm), "writes only the declared locations in "+h)
		}
	}
}

// ----------------------------------------------------------------- lemmas

func (vc *VC) lemmaParamType(env *Env, ty string) (types.Type, Sort) {
	ty = strings.TrimSpace(ty)
	switch ty {
	case "int", "":
		return nil, SInt
	case "bool":
		return tBool, SBool
	case "string":
		return types.Typ[types.String], SStr
	}
	if obj := types.Universe.Lookup(ty); obj != nil {
		if tn, ok := obj.(*types.TypeName); ok {
			return tn.Type(), vc.sortOf(tn.Type())
		}
	}
	if strings.HasPrefix(ty, "[]") {
		et, _ := vc.lemmaParamType(env, ty[2:])
		if et == nil {
			et = tInt
		}
		t := types.NewSlice(et)
		return t, vc.sortOf(t)
	}
	ptr := strings.HasPrefix(ty, "*")
	name := strings.TrimPrefix(ty, "*")
	var pkg *types.Package = env.pkg
	if k := strings.Index(name, "."); k >= 0 {
		pkg = env.importedPkg(name[:k])
		name = name[k+1:]
	}
	if pkg != nil {
		if obj := pkg.Scope().Lookup(name); obj != nil {
			if tn, ok := obj.(*types.TypeName); ok {
				var t types.Type = tn.Type()
				if ptr {
					t = types.NewPointer(t)
				}
				return t, vc.sortOf(t)
			}
		}
	}
	vc.errs = append(vc.errs, "unknown lemma parameter type "+ty)
	return nil, SInt
}
