package main

// Loop cutting with invariants, write-set regions and frame conditions.

import (
	"os"
	"strings"
	"fmt"
	"go/ast"
	"go/token"
	"go/types"
	"sort"

	"golang.org/x/tools/go/ssa"
)

type loopInfo struct {
	header   *ssa.BasicBlock
	body     map[*ssa.BasicBlock]bool
	ordinal  int // 1-based source ordinal (0 = unknown)
	spec     *LoopSpec
	pre      *State
	hdr      *State
	regions  []region
	modHeaps []string
	modTop   bool
	pcPre    Term
	frameWm  Term // watermark below which the loop frame protects objects (pre.wm, or the function's entry watermark for "modifies fresh")
}

// rangeIndexAlloc returns the hidden index variable of a "for range" loop: the
// builder increments it in the loop header.
func (li *loopInfo) rangeIndexAlloc() *ssa.Alloc {
	for _, in := range li.header.Instrs {
		if s, ok := in.(*ssa.Store); ok {
			if a, ok := s.Addr.(*ssa.Alloc); ok && a.Comment == "rangeindex" {
				return a
			}
		}
	}
	return nil
}

// mapRange returns the range instruction of a "for ... range m" loop over a
// map (its Next is in the loop header), nil for other loops.
func (li *loopInfo) mapRange() *ssa.Range {
	for _, in := range li.header.Instrs {
		if n, ok := in.(*ssa.Next); ok && !n.IsString {
			if r, ok := n.Iter.(*ssa.Range); ok {
				if _, isMap := r.X.Type().Underlying().(*types.Map); isMap {
					return r
				}
			}
		}
	}
	return nil
}

// findLoops discovers natural loops and binds them to source ordinals.
func (fr *Frame) findLoops(order []*ssa.BasicBlock) {
	fr.loops = map[*ssa.BasicBlock]*loopInfo{}
	for _, b := range order {
		for _, s := range b.Succs {
			if isBackEdge(b, s) {
				li := fr.loops[s]
				if li == nil {
					li = &loopInfo{header: s, body: map[*ssa.BasicBlock]bool{s: true}}
					fr.loops[s] = li
				}
				// natural loop of back edge b->s
				var stack []*ssa.BasicBlock
				if !li.body[b] {
					li.body[b] = true
					stack = append(stack, b)
				}
				for len(stack) > 0 {
					x := stack[len(stack)-1]
					stack = stack[:len(stack)-1]
					for _, p := range x.Preds {
						if !li.body[p] {
							li.body[p] = true
							stack = append(stack, p)
						}
					}
				}
			}
		}
	}
	if len(fr.loops) == 0 {
		return
	}
	// bind to source loops: the header block's first positioned instruction
	// lies inside exactly the statements that enclose it; the loop statement
	// is the innermost for/range statement whose extent contains every body
	// block position. We use ordering instead: sort headers by the smallest
	// source position found in the loop body, and source loops by position;
	// nesting structure makes both orders agree.
	src := loopOrdinals(fr.fn)
	var hs []*loopInfo
	for _, li := range fr.loops {
		hs = append(hs, li)
	}
	pos := func(li *loopInfo) token.Pos {
		best := token.NoPos
		for b := range li.body {
			for _, in := range b.Instrs {
				if p := in.Pos(); p != token.NoPos && (best == token.NoPos || p < best) {
					best = p
				}
			}
		}
		return best
	}
	// match each header to the innermost source loop containing all its positions
	for _, li := range hs {
		lo, hi := token.NoPos, token.NoPos
		for b := range li.body {
			for _, in := range b.Instrs {
				if _, isAlloc := in.(*ssa.Alloc); isAlloc {
					continue
				}
				p := in.Pos()
				if p == token.NoPos {
					continue
				}
				if lo == token.NoPos || p < lo {
					lo = p
				}
				if p > hi {
					hi = p
				}
			}
		}
		bestIdx := -1
		var bestSize token.Pos
		for i, n := range src {
			if lo != token.NoPos && n.Pos() <= lo && hi <= n.End() {
				size := n.End() - n.Pos()
				if bestIdx < 0 || size < bestSize {
					bestIdx, bestSize = i, size
				}
			}
		}
		if bestIdx >= 0 {
			li.ordinal = bestIdx + 1
		}
	}
	// two headers must not claim the same source loop; fall back to order
	used := map[int]int{}
	for _, li := range hs {
		used[li.ordinal]++
	}
	ambiguous := false
	for o, n := range used {
		if o == 0 || n > 1 {
			ambiguous = true
		}
	}
	if ambiguous && len(hs) == len(src) {
		sort.Slice(hs, func(i, j int) bool { return pos(hs[i]) < pos(hs[j]) })
		for i, li := range hs {
			li.ordinal = i + 1
		}
	} else if ambiguous {
		fr.vc.warn("%s: could not bind all loops to source loops", funcName(fr.fn))
	}
	if fr.contract != nil {
		for _, li := range hs {
			li.spec = fr.contract.Loops[li.ordinal]
		}
		for n := range fr.contract.Loops {
			found := false
			for _, li := range hs {
				if li.ordinal == n {
					found = true
				}
			}
			if !found && fr.top {
				fr.vc.oblige("binding", "binding", fmt.Sprintf("loop%d", n), tTrue, tFalse, fmt.Sprintf("contract names loop %d which does not exist", n))
			}
		}
	}
	_ = ast.Node(nil)
}

// loopWrites computes the cells and heaps possibly written in the loop body.
func (fr *Frame) loopWrites(li *loopInfo) (cells map[ssa.Value]bool, heaps map[string]bool, top bool, allocs bool) {
	vc := fr.vc
	cells = map[ssa.Value]bool{}
	heaps = map[string]bool{}
	for b := range li.body {
		for _, in := range b.Instrs {
			switch in := in.(type) {
			case *ssa.Store:
				root := addrRoot(in.Addr)
				switch r := root.(type) {
				case *ssa.Alloc:
					if fr.cellAlloc[r] {
						cells[r] = true
						continue
					}
				case *ssa.FreeVar:
					if l, ok := fr.freeLocs[r]; ok && l.kind == "cell" {
						cells[l.cell] = true
					} else {
						cells[r] = true
					}
					continue
				}
				for _, h := range vc.storeHeaps(in.Addr) {
					heaps[h] = true
				}
			case *ssa.Alloc:
				if fr.cellAlloc[in] {
					continue
				}
				allocs = true
				for _, h := range vc.zeroInitHeaps(derefType(in.Type())) {
					heaps[h] = true
				}
			case *ssa.MakeSlice:
				allocs = true
				heaps[elemHeapName(in.Type().Underlying().(*types.Slice).Elem())] = true
			case *ssa.MakeMap:
				allocs = true
				heaps[mapHasName(in.Type())] = true
				heaps[mapLenName(in.Type())] = true
			case *ssa.MakeChan, *ssa.MakeClosure, *ssa.MakeInterface:
				allocs = true
			case *ssa.MapUpdate:
				mt := in.Map.Type()
				heaps[mapHasName(mt)], heaps[mapValName(mt)], heaps[mapLenName(mt)] = true, true, true
			case *ssa.Convert:
				if sl, ok := in.Type().Underlying().(*types.Slice); ok {
					allocs = true
					heaps[elemHeapName(sl.Elem())] = true
				}
			case *ssa.Range:
				cells[rangeKey{in}] = true
				cells[rangeCountKey{rangeKey{in}}] = true
			case *ssa.Next:
				if r, ok := in.Iter.(*ssa.Range); ok {
					cells[rangeKey{r}] = true
					cells[rangeCountKey{rangeKey{r}}] = true
				}
			case *ssa.Defer:
				cells[deferKey{in}] = true
				top = true
			case *ssa.Go:
				top = true
			case *ssa.Send:
				fr.chanGhostWrites(heaps, "chsends", "chlast")
			case *ssa.Select:
				fr.chanGhostWrites(heaps, "chsends", "chlast", "chrecvs", "chrecvsclosed", "chlastrecv")
			case *ssa.UnOp:
				if in.Op == token.ARROW {
					fr.chanGhostWrites(heaps, "chrecvs", "chrecvsclosed", "chlastrecv")
				}
			case *ssa.Call:
				if b, ok := in.Call.Value.(*ssa.Builtin); ok && b.Name() == "close" {
					fr.chanGhostWrites(heaps, "chcloses")
				}
				// names bound by "at call ... let" clauses at this call
				if fr.top && fr.contract != nil {
					cn := ""
					for _, cs := range fr.contract.CallSites {
						if cs.Let == "" {
							continue
						}
						if cn == "" {
							cn = fr.calleeNameOf(&in.Call)
						}
						if cn != "" && calleeMatches(cs.Callee, cn) {
							cells[letKey{cs.Let}] = true
						}
					}
				}
				if fr.top && fr.contract != nil {
					// ghosts assigned by "at call ... set" clauses of the
					// verified function change in the loops that contain a
					// matching call (any ordinal)
					if name := fr.staticCalleeName(&in.Call); name != "" {
						for _, cs := range fr.contract.CallSites {
							if cs.Clause.Kind == "callset" && calleeMatches(cs.Callee, name) {
								if g := vc.specs.ghost(cs.Target); g != nil && !g.IsMap {
									heaps[g.heapName()] = true
								}
							}
						}
					}
				}
				e := vc.callEffects(fr, &in.Call)
				if e.top {
					top = true
					if os.Getenv("GOVC_DEBUG_TOP") != "" {
						vc.warn("loop %d: call %s has unbounded effect (%s)", li.ordinal, in.Call.Value.String(), e.why)
					}
				}
				for h := range e.heaps {
					heaps[h] = true
				}
				if e.allocs || len(e.heaps) > 0 {
					allocs = true
				}
				if e.top || e.callsUnknown || fr.closures[in.Call.Value] != nil || fr.mayRunLocalClosure(&in.Call) {
					for _, as := range fr.allocsByName {
						for _, a := range as {
							if fr.cellAlloc[a] && isCaptured(a) {
								cells[a] = true
							}
						}
					}
				}
				// inlined closures write outer cells directly
				if ci, ok := fr.closures[in.Call.Value]; ok {
					for c := range closureCellWrites(ci, fr) {
						cells[c] = true
					}
				}
			}
		}
	}
	return
}

// chanGhostWrites adds the declared channel-operation ghost maps to a loop's
// write set.
func (fr *Frame) chanGhostWrites(heaps map[string]bool, names ...string) {
	for _, n := range names {
		if g := fr.vc.specs.ghost(n); g != nil && g.IsMap {
			heaps[g.heapName()] = true
		}
	}
}

// staticCalleeName names the callee of a call the way callInner does.
func (fr *Frame) staticCalleeName(c *ssa.CallCommon) string {
	if _, ok := c.Value.(*ssa.Builtin); ok {
		return ""
	}
	if c.IsInvoke() {
		return fr.vc.specs.ifaceName(c)
	}
	var callee *ssa.Function
	if ci, ok := fr.closures[c.Value]; ok {
		callee = ci.fn
	} else {
		callee = c.StaticCallee()
	}
	if callee != nil {
		return funcName(callee)
	}
	return fieldFuncName(c.Value)
}

// closureCellWrites lists the outer cells a closure body stores to.
func closureCellWrites(ci *closureInfo, fr *Frame) map[ssa.Value]bool {
	out := map[ssa.Value]bool{}
	for i, fv := range ci.fn.FreeVars {
		written := false
		for _, b := range ci.fn.Blocks {
			for _, in := range b.Instrs {
				if s, ok := in.(*ssa.Store); ok && addrRoot(s.Addr) == ssa.Value(fv) {
					written = true
				}
			}
		}
		if written {
			if a, ok := ci.bindings[i].(*ssa.Alloc); ok {
				out[a] = true
			}
		}
	}
	return out
}

// addrRoot follows FieldAddr/IndexAddr chains to the underlying address.
func addrRoot(v ssa.Value) ssa.Value {
	for {
		switch x := v.(type) {
		case *ssa.FieldAddr:
			v = x.X
		case *ssa.IndexAddr:
			if _, ok := x.X.Type().Underlying().(*types.Pointer); ok {
				v = x.X
			} else {
				return x
			}
		default:
			return v
		}
	}
}

// storeHeaps names the heaps a store through addr may write.
func (vc *VC) storeHeaps(addr ssa.Value) []string {
	// find the outermost projection from a first-class reference
	var chain []ssa.Value
	v := addr
	for {
		chain = append(chain, v)
		switch x := v.(type) {
		case *ssa.FieldAddr:
			v = x.X
			continue
		case *ssa.IndexAddr:
			if _, ok := x.X.Type().Underlying().(*types.Pointer); ok {
				v = x.X
				continue
			}
		}
		break
	}
	root := chain[len(chain)-1]
	switch r := root.(type) {
	case *ssa.IndexAddr: // slice element
		return []string{elemHeapName(r.X.Type().Underlying().(*types.Slice).Elem())}
	case *ssa.Global:
		return []string{globalName(r.Pkg.Pkg.Path(), r.Name())}
	}
	// root is a reference value; the first projection decides the heap
	if len(chain) >= 2 {
		switch p := chain[len(chain)-2].(type) {
		case *ssa.FieldAddr:
			st := derefType(p.X.Type())
			return []string{fieldHeapName(st, st.Underlying().(*types.Struct).Field(p.Field).Name())}
		case *ssa.IndexAddr:
			arr := derefType(p.X.Type()).Underlying().(*types.Array)
			return []string{elemHeapName(arr.Elem())}
		}
	}
	elem := derefType(root.Type())
	return vc.zeroInitHeaps(elem)
}

// zeroInitHeaps names the heaps holding a heap object of the given type.
func (vc *VC) zeroInitHeaps(elem types.Type) []string {
	switch u := elem.Underlying().(type) {
	case *types.Struct:
		var hs []string
		for i := 0; i < u.NumFields(); i++ {
			if u.Field(i).Name() == "_" {
				continue // blank fields have no heap
			}
			hs = append(hs, fieldHeapName(elem, u.Field(i).Name()))
		}
		return hs
	case *types.Array:
		return []string{elemHeapName(u.Elem())}
	}
	return []string{ptrHeapName(elem)}
}

// ownWatermark is the watermark below which objects were not allocated by
// the function of this frame: its entry watermark.
func (fr *Frame) ownWatermark(pre *State) Term {
	if fr.entry != nil && fr.entry.wm.S != "" {
		return fr.entry.wm
	}
	return pre.wm
}

// enterLoop cuts the loop at its header: invariant on entry, havoc of the
// loop's write set, invariant assumed.
func (fr *Frame) enterLoop(li *loopInfo, pre *State, pc Term) *State {
	vc := fr.vc
	li.pre = pre.clone()
	li.pcPre = pc
	site := fmt.Sprintf("loop%d", li.ordinal)
	// invariant on entry
	if li.spec != nil {
		env := fr.specEnv(pre, pc)
		env.pre = li.pre
		fr.curRangeIdx, fr.curMapRange = li.rangeIndexAlloc(), li.mapRange()
		for _, inv := range li.spec.Invariants {
			if strings.Contains(inv.Src, "prev(") {
				continue // transition invariant: checked at back edges only
			}
			vc.obligeClause("inv-entry", inv.Label, site+":"+labelOr(inv.Label, "inv"), pc, env, inv)
		}
		fr.curRangeIdx, fr.curMapRange = nil, nil
	}
	cells, heaps, top, allocs := fr.loopWrites(li)
	st := pre.clone()
	// objects allocated by earlier iterations lie above the watermark the
	// loop was entered with: advance it before the loop-carried variables are
	// given their arbitrary loop-head values (their type facts bound
	// references by the current watermark)
	if allocs || top {
		vc.bumpWatermark(st)
	}
	var ck []ssa.Value
	for c := range cells {
		ck = append(ck, c)
	}
	sort.Slice(ck, func(i, j int) bool { return valueKey(ck[i]) < valueKey(ck[j]) })
	for _, c := range ck {
		if _, live := pre.cells[c]; !live {
			if _, isDefer := c.(deferKey); isDefer {
				// a defer statement inside the loop that has not run before
				// the loop may have run after it
				st.cells[c] = vc.fresh("loop:defer", SBool)
			}
			continue
		}
		var t types.Type
		switch x := c.(type) {
		case *ssa.Alloc:
			t = derefType(x.Type())
		case *ssa.FreeVar:
			t = derefType(x.Type())
		}
		if t != nil {
			st.cells[c] = fr.freshTyped("loop:"+c.Name(), t, st, pc)
			if a, ok := c.(*ssa.Alloc); ok && a.Comment == "rangeindex" {
				// the builder's hidden range counter starts at -1 and is only
				// ever incremented
				vc.assume(pc, le(intLit(-1), st.cells[c]))
			}
		} else {
			st.cells[c] = vc.fresh("loop:"+c.Name(), pre.cells[c].Sort)
		}
	}
	li.modTop = top
	if top {
		vc.havocAllHeaps(st)
		var hn []string
		for h := range heaps {
			hn = append(hn, h)
		}
		sort.Strings(hn)
		for _, h := range hn {
			if vc.specs.isPrivateHeap(h) || vc.specs.isImmutableHeap(h) || vc.specs.isSetGhostHeap(h) {
				vc.havocHeapKeepOldBelow(st, pre, h, pc, fr.ownWatermark(pre))
			} else if isChanGhostHeap(h) {
				// channel operations executed by the loop body itself
				vc.heap(st, h, vc.specs.ghost(strings.TrimSuffix(strings.TrimPrefix(h, "|GH:"), "|")).sort())
				vc.havocHeap(st, h)
			}
		}
	} else {
		var hn []string
		for h := range heaps {
			hn = append(hn, h)
		}
		sort.Strings(hn)
		li.modHeaps = hn
		if li.spec != nil && li.spec.HasMod {
			env := fr.specEnv(pre, pc)
			regs, err := vc.evalRegions(env, li.spec.Modifies)
			if err != nil {
				vc.specError(&Clause{Src: "loop modifies"}, err)
				for _, h := range hn {
					vc.havocHeap(st, h)
				}
			} else {
				li.regions = regs
				li.frameWm = pre.wm
				if li.spec.ModFresh {
					// objects allocated since the function was entered may
					// change as well: the frame protects what existed at entry
					li.frameWm = fr.entry.wm
				}
				for _, h := range hn {
					if vc.heapInfo[h] == nil {
						continue
					}
					vc.havocHeap(st, h)
					oldH := vc.heap(pre, h, vc.heapInfo[h].Sort)
					vc.assume(pc, vc.frameFormula(st.heaps[h], oldH, h, regs, li.frameWm))
					if excl, ok := simpleExclusions(regs, h); ok && hasPrefix(vc.heapInfo[h].Sort, "(Array ") {
						vc.recordFrame(st.heaps[h], oldH, li.frameWm, pc, excl)
					}
				}
			}
		} else {
			for _, h := range hn {
				vc.havocHeapKeepOldBelow(st, pre, h, pc, fr.ownWatermark(pre))
			}
		}
	}
	li.hdr = st.clone()
	if li.spec != nil {
		env := fr.specEnv(st, pc)
		env.pre = li.pre
		fr.curRangeIdx, fr.curMapRange = li.rangeIndexAlloc(), li.mapRange()
		for _, inv := range li.spec.Invariants {
			if strings.Contains(inv.Src, "prev(") {
				continue
			}
			vc.assumeClause(pc, env, inv)
		}
		fr.curRangeIdx, fr.curMapRange = nil, nil
	}
	vc.cover(site+":body", pc)
	return st
}

// backEdge checks that the loop body re-establishes the invariants and stays
// within the declared write set.
func (fr *Frame) backEdge(li *loopInfo, st *State, guard Term) {
	vc := fr.vc
	site := fmt.Sprintf("loop%d", li.ordinal)
	if li.spec == nil {
		return
	}
	env := fr.specEnv(st, guard)
	env.pre = li.pre
	env.prev = li.hdr
	fr.curRangeIdx, fr.curMapRange = li.rangeIndexAlloc(), li.mapRange()
	for _, inv := range li.spec.Invariants {
		vc.obligeClause("inv-step", inv.Label, site+":"+labelOr(inv.Label, "inv"), guard, env, inv)
	}
	fr.curRangeIdx, fr.curMapRange = nil, nil
	if li.spec.HasMod && !li.modTop {
		for _, h := range li.modHeaps {
			if vc.heapInfo[h] == nil {
				continue
			}
			cur := vc.heap(st, h, vc.heapInfo[h].Sort)
			was := vc.heap(li.pre, h, vc.heapInfo[h].Sort)
			if cur.S == was.S {
				continue
			}
			fwm := li.pre.wm
			if li.frameWm.S != "" {
				fwm = li.frameWm
			}
			vc.oblige("loop-frame", "frame", site+":"+heapShort(h), guard, vc.frameFormula(cur, was, h, li.regions, fwm), "loop writes only its declared locations in "+h)
		}
	}
}

func heapShort(h string) string {
	s := h
	if len(s) > 2 && s[0] == '|' {
		s = s[1 : len(s)-1]
	}
	if k := lastSlash(s); k >= 0 {
		s = s[:2] + s[k+1:]
	}
	return s
}

func lastSlash(s string) int {
	for i := len(s) - 1; i >= 0; i-- {
		if s[i] == '/' {
			return i
		}
	}
	return -1
}

// ------------------------------------------------------------------ regions

type region struct {
	heap   string
	ref    Term
	whole  bool // all of the inner array (elements / map entries)
	lo, hi Term // absolute element index range when !whole and isElem
	isElem   bool
	global   bool
	ghostAll bool // the whole ghost map, or a field of every object of a type ("T.f")
	sort     Sort // sort of the heap, when the region's type is known
}

// evalRegions turns a modifies list into heap regions, evaluated in env's
// state.
func (vc *VC) evalRegions(env *Env, locs []Expr) ([]region, error) {
	var out []region
	for _, l := range locs {
		switch x := l.(type) {
		case *EField:
			if id, ok := x.X.(*EIdent); ok {
				if _, isVar := env.vars[id.Name]; !isVar && env.fr == nil {
					if p := env.importedPkg(id.Name); p != nil {
						if obj := p.Scope().Lookup(x.Name); obj != nil {
							out = append(out, region{heap: globalName(obj.Pkg().Path(), obj.Name()), global: true})
							continue
						}
					}
				}
			}
			if id, ok := x.X.(*EIdent); ok && env.pkg != nil && !env.isVariable(id.Name) {
				// "T.f": field f of every object of the struct type T
				if tn, ok := env.pkg.Scope().Lookup(id.Name).(*types.TypeName); ok {
					if st, isStruct := tn.Type().Underlying().(*types.Struct); isStruct {
						found := false
						for i := 0; i < st.NumFields(); i++ {
							if st.Field(i).Name() == x.Name {
								found = true
								hn := fieldHeapName(tn.Type(), x.Name)
								vc.heap(env.st, hn, arraySort(SInt, vc.sortOf(st.Field(i).Type())))
								vc.noteHeapType(hn, st.Field(i).Type(), "field")
								out = append(out, region{heap: hn, whole: true, ghostAll: true})
							}
						}
						if !found {
							return nil, fmt.Errorf("modifies %s: type %s has no field %s", exprString(l), id.Name, x.Name)
						}
						continue
					}
				}
			}
			xv, err := env.eval(x.X)
			if err != nil {
				return nil, err
			}
			if xv.Typ == nil {
				return nil, fmt.Errorf("modifies %s: untyped base", exprString(l))
			}
			t := derefType(xv.Typ)
			if _, ok := t.Underlying().(*types.Struct); !ok {
				return nil, fmt.Errorf("modifies %s: not a struct field", exprString(l))
			}
			// resolve promoted fields through embedding by evaluating the field
			if _, err := env.fieldOf(xv, x.Name); err != nil {
				return nil, err
			}
			hname, ref, err := vc.fieldRegion(env, xv, x.Name)
			if err != nil {
				return nil, err
			}
			fsort := Sort("")
			if fv, err := env.fieldOf(xv, x.Name); err == nil && fv.Typ != nil {
				fsort = arraySort(SInt, vc.sortOf(fv.Typ))
			}
			out = append(out, region{heap: hname, ref: ref, sort: fsort})
		case *ESlice:
			xv, err := env.eval(x.X)
			if err != nil {
				return nil, err
			}
			if xv.Typ == nil {
				return nil, fmt.Errorf("modifies %s: untyped", exprString(l))
			}
			switch u := xv.Typ.Underlying().(type) {
			case *types.Slice:
				r := region{heap: elemHeapName(u.Elem()), ref: sBase(xv.T), isElem: true, whole: x.Lo == nil, sort: arraySort(SInt, arraySort(SInt, vc.sortOf(u.Elem())))}
				if x.Lo != nil {
					lo, err := env.eval(x.Lo)
					if err != nil {
						return nil, err
					}
					hi := TV{sLen(xv.T), tInt}
					if x.Hi != nil {
						hi, err = env.eval(x.Hi)
						if err != nil {
							return nil, err
						}
					}
					r.lo = add(sOff(xv.T), lo.T)
					r.hi = add(sOff(xv.T), hi.T)
				}
				out = append(out, r)
			case *types.Map:
				for _, h := range []string{mapHasName(xv.Typ), mapValName(xv.Typ), mapLenName(xv.Typ)} {
					out = append(out, region{heap: h, ref: xv.T, whole: true})
				}
			default:
				return nil, fmt.Errorf("modifies %s: not a slice or map", exprString(l))
			}
		case *EIndex:
			if id, ok := x.X.(*EIdent); ok {
				if g := vc.specs.ghost(id.Name); g != nil && g.IsMap {
					iv, err := env.eval(x.I)
					if err != nil {
						return nil, err
					}
					vc.heap(env.st, g.heapName(), g.sort())
					out = append(out, region{heap: g.heapName(), ref: iv.T})
					continue
				}
			}
			return nil, fmt.Errorf("modifies %s: unsupported location", exprString(l))
		case *EIdent:
			if g := vc.specs.ghost(x.Name); g != nil {
				vc.heap(env.st, g.heapName(), g.sort())
				out = append(out, region{heap: g.heapName(), global: !g.IsMap, whole: g.IsMap, ghostAll: g.IsMap})
				continue
			}
			// a global variable of this package, or "*p" style pointer target
			if env.pkg != nil {
				if obj := env.pkg.Scope().Lookup(x.Name); obj != nil {
					if _, ok := obj.(*types.Var); ok {
						out = append(out, region{heap: globalName(obj.Pkg().Path(), obj.Name()), global: true})
						continue
					}
				}
			}
			return nil, fmt.Errorf("modifies %s: unsupported", exprString(l))
		case *EUn:
			return nil, fmt.Errorf("modifies %s: unsupported", exprString(l))
		default:
			return nil, fmt.Errorf("modifies %s: unsupported location", exprString(l))
		}
	}
	return out, nil
}

func (vc *VC) fieldRegion(env *Env, xv TV, name string) (string, Term, error) {
	t := xv.Typ
	if _, ok := t.Underlying().(*types.Pointer); !ok {
		return "", Term{}, fmt.Errorf("modifies field %s of a non-pointer", name)
	}
	t = derefType(t)
	st := t.Underlying().(*types.Struct)
	for i := 0; i < st.NumFields(); i++ {
		if st.Field(i).Name() == name {
			return fieldHeapName(t, name), xv.T, nil
		}
	}
	return "", Term{}, fmt.Errorf("modifies: promoted field %s not supported", name)
}

// havocRegions havocs exactly the listed regions of the heaps (relative to
// the pre-state) and leaves everything else untouched.
func (vc *VC) havocRegions(st, pre *State, regs []region, pc Term) {
	for _, r := range regs {
		info := vc.heapInfo[r.heap]
		if info == nil {
			vc.heap(st, r.heap, vc.guessHeapSort(r))
			info = vc.heapInfo[r.heap]
			if info == nil {
				continue
			}
		}
		h := vc.heap(st, r.heap, info.Sort)
		if r.global || r.ghostAll {
			vc.havocHeap(st, r.heap)
			continue
		}
		inner := arrayElemSort(info.Sort)
		nv := vc.fresh("mod", inner)
		if r.isElem && !r.whole {
			oldInner := sel(h, r.ref)
			vc.assume(pc, T(SBool, "(forall ((j Int)) (! (=> (or (< j %s) (>= j %s)) (= (select %s j) (select %s j))) :pattern ((select %s j))))", r.lo.S, r.hi.S, nv.S, oldInner.S, nv.S))
		}
		if r.isElem {
			// a nil slice (backing array 0) has no elements: nothing is havoced
			st.heaps[r.heap] = vc.def("h", ite(eq(r.ref, tZero), h, store(h, r.ref, nv)))
		} else {
			st.heaps[r.heap] = vc.def("h", store(h, r.ref, nv))
		}
	}
}

func (vc *VC) guessHeapSort(r region) Sort {
	if r.sort != "" {
		return r.sort
	}
	return arraySort(SInt, SInt)
}

// frameFormula states that cur agrees with was outside the regions, for all
// objects that existed at watermark wm.
func (vc *VC) frameFormula(cur, was Term, heap string, regs []region, wm Term) Term {
	info := vc.heapInfo[heap]
	for _, r := range regs {
		if r.heap == heap && r.ghostAll {
			return tTrue
		}
	}
	if info == nil || !hasPrefix(info.Sort, "(Array ") {
		for _, r := range regs {
			if r.heap == heap && r.global {
				return tTrue
			}
		}
		return eq(cur, was)
	}
	var excl []Term
	var partial []region
	for _, r := range regs {
		if r.heap != heap {
			continue
		}
		if r.isElem && !r.whole {
			partial = append(partial, r)
			continue
		}
		if r.isElem {
			// the elements of a nil slice (backing array 0): no location at all
			excl = append(excl, or(eq(r.ref, tZero), not(eq(Term{"fr", SInt}, r.ref))))
			continue
		}
		excl = append(excl, not(eq(Term{"fr", SInt}, r.ref)))
	}
	conds := append([]Term{le(tZero, Term{"fr", SInt}), lt(Term{"fr", SInt}, wm)}, excl...)
	body := eq(sel(cur, Term{"fr", SInt}), sel(was, Term{"fr", SInt}))
	if len(partial) > 0 {
		// objects with partial regions: elements outside every range unchanged
		var pconds []Term
		for _, r := range partial {
			pconds = append(pconds, implies(eq(Term{"fr", SInt}, r.ref), or(lt(Term{"fj", SInt}, r.lo), le(r.hi, Term{"fj", SInt}))))
		}
		conds = append(conds, pconds...)
		return T(SBool, "(forall ((fr Int) (fj Int)) (! (=> %s (= (select (select %s fr) fj) (select (select %s fr) fj))) :pattern ((select (select %s fr) fj))))", and(conds...).S, cur.S, was.S, cur.S)
	}
	return T(SBool, "(forall ((fr Int)) (! (=> %s %s) :pattern ((select %s fr))))", and(conds...).S, body.S, cur.S)
}

func hasPrefix(s, p string) bool { return len(s) >= len(p) && s[:len(p)] == p }

// simpleExclusions lists the excluded references of a heap when every region
// on it is a whole object (no element ranges, not the whole ghost map).
func simpleExclusions(regs []region, heap string) ([]Term, bool) {
	var excl []Term
	for _, r := range regs {
		if r.heap != heap {
			continue
		}
		if r.global || r.ghostAll || (r.isElem && !r.whole) {
			return nil, false
		}
		excl = append(excl, r.ref)
	}
	return excl, true
}
