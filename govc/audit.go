package main

// govc audit: soundness check of the prop files taken together.
//
// A prop file may claim only some clause labels of a function (several
// properties share one function contract). But every clause that some proof
// ASSUMES - a postcondition (assumed by callers), a loop invariant (assumed by
// the loop body and the code after the loop), a frame, a channel invariant -
// has to be PROVED under at least one property, otherwise a proof rests on a
// clause nobody checks. The audit regenerates the obligations of every
// function listed in any prop file and reports
//   (1) assumption-bearing obligations that no prop file's label list claims
//       (ORPHAN: govc check adds them to every property that lists the
//       function, so they are proved; listed here for information), and
//   (2) function contracts in the repository's contract files that no prop
//       file lists although they are not declared opaque (their clauses are
//       assumed at call sites but never verified).
// Exit 0: no gap. Exit 1: gaps (listed).

import (
	"fmt"
	"os"
	"path/filepath"
	"sort"
	"strings"
)

func assumptionBearing(kind string) bool {
	switch kind {
	case "post", "inv-entry", "inv-step", "frame", "loop-frame", "chan-inv":
		return true
	}
	return false
}

func cmdAudit(args []string) int {
	repo, verif := "/repo", "/verif"
	for i := 0; i < len(args); i++ {
		switch args[i] {
		case "--repo":
			i++
			repo = args[i]
		case "--verif":
			i++
			verif = args[i]
		}
	}
	files, _ := filepath.Glob(filepath.Join(verif, "props", "C*.prop"))
	sort.Strings(files)
	var props []*PropSpec
	pkgset := map[string]bool{}
	for _, f := range files {
		ps, err := loadProp(f)
		if err != nil {
			fmt.Fprintln(os.Stderr, "govc audit:", err)
			return 2
		}
		if ps.ID == "" {
			ps.ID = strings.TrimSuffix(filepath.Base(f), ".prop")
		}
		props = append(props, ps)
		for _, p := range ps.Packages {
			pkgset[p] = true
		}
	}
	var pkgs []string
	for p := range pkgset {
		pkgs = append(pkgs, p)
	}
	sort.Strings(pkgs)
	prog, err := loadProgram(repo, pkgs)
	if err != nil {
		fmt.Fprintln(os.Stderr, "govc audit: load failed:", err)
		return 2
	}
	specs := newSpecDB()
	if err := specs.loadExterns(filepath.Join(verif, "govc", "externs")); err != nil {
		fmt.Fprintln(os.Stderr, "govc audit:", err)
		return 2
	}
	if err := specs.loadRepoContracts(prog); err != nil {
		fmt.Fprintln(os.Stderr, "govc audit:", err)
		return 2
	}
	type oinfo struct {
		kind, src string
		claimedBy []string
	}
	perFunc := map[string]map[string]*oinfo{}
	listed := map[string][]string{}
	vcCache := map[string]*VC{}
	absCount := map[string]bool{}
	for _, ps := range props {
		for _, pf := range ps.Funcs {
			listed[pf.Name] = append(listed[pf.Name], ps.ID)
			fn := prog.Funcs[pf.Name]
			fc := specs.contractFor(pf.Name)
			if fn == nil || fc == nil || fc.Opaque {
				continue
			}
			vc := vcCache[pf.Name]
			if vc == nil {
				vc = generate(prog, specs, fn, fc)
				vcCache[pf.Name] = vc
			}
			m := perFunc[pf.Name]
			if m == nil {
				m = map[string]*oinfo{}
				perFunc[pf.Name] = m
			}
			for _, o := range vc.obls {
				if !assumptionBearing(o.Kind) {
					continue
				}
				if o.Label == "abs" {
					absCount[o.Name] = true // declared abstraction: trusted by declaration, listed in the evidence
					continue
				}
				oi := m[o.Name]
				if oi == nil {
					oi = &oinfo{kind: o.Kind, src: o.Src}
					m[o.Name] = oi
				}
				if labelMatch(pf.Labels, o) {
					oi.claimedBy = append(oi.claimedBy, ps.ID)
				}
			}
		}
	}
	gaps, orphan := 0, 0
	var fnames []string
	for f := range perFunc {
		fnames = append(fnames, f)
	}
	sort.Strings(fnames)
	total := 0
	for _, f := range fnames {
		var names []string
		for n := range perFunc[f] {
			names = append(names, n)
		}
		sort.Strings(names)
		for _, n := range names {
			total++
			oi := perFunc[f][n]
			if len(oi.claimedBy) == 0 {
				orphan++
				fmt.Printf("ORPHAN %s  (no label list claims it; proved by every property listing the function: %s)  %s\n", n, strings.Join(uniq(listed[f]), ","), truncate(oi.src, 100))
			}
		}
	}
	// contracts never listed
	var unl []string
	for name, fc := range specs.byName {
		if fc.IsExtern || fc.IsIface || fc.Opaque || fc.Pkg == "" {
			continue
		}
		if len(fc.Ensures) == 0 && len(fc.Loops) == 0 && !fc.HasMod && len(fc.Fresh) == 0 {
			continue // nothing a caller could assume beyond the computed effects
		}
		if _, ok := listed[name]; !ok {
			unl = append(unl, name)
		}
	}
	sort.Strings(unl)
	for _, n := range unl {
		gaps++
		fmt.Printf("UNVERIFIED-CONTRACT %s (has clauses that callers assume, listed in no prop file, not declared opaque)\n", n)
	}
	fmt.Printf("audit: %d assumption-bearing obligations over %d functions in %d prop files; %d declared abstractions ([abs], trusted); %d orphan clauses (proved under the orphan rule); %d unverified contracts\n", total, len(fnames), len(props), len(absCount), orphan, gaps)
	if gaps > 0 {
		return 1
	}
	return 0
}

func uniq(xs []string) []string {
	seen := map[string]bool{}
	var out []string
	for _, x := range xs {
		if !seen[x] {
			seen[x] = true
			out = append(out, x)
		}
	}
	sort.Strings(out)
	return out
}
