package main

// Lemmas: proved once (optionally by induction on an integer parameter) and
// available to function contracts through "uses NAME".
//
//   //@ lemma name(i *T, k int)
//   //@   induction k up from 0            (or: induction k down from len(i.xs))
//   //@   requires ...
//   //@   ensures ...
//
// Induction "up from LO" proves the statement for every k >= LO from the base
// case k == LO and the step "k > LO and statement(k-1) imply statement(k)";
// "down from HI" proves it for every k <= HI from k == HI and the step
// "k < HI and statement(k+1) imply statement(k)". Recursive specification
// functions are unfolded once at every term at which they occur, which is what
// makes the steps quantifier-free.

import (
	"fmt"
	"strings"
)

type induction struct {
	v     string
	up    bool
	bound Expr
}

func parseInduction(s string) (*induction, error) {
	f := strings.Fields(s)
	if len(f) < 4 || (f[1] != "up" && f[1] != "down") || f[2] != "from" {
		return nil, fmt.Errorf("bad induction clause %q (want: induction VAR up|down from EXPR)", s)
	}
	b, err := parseExpr(strings.Join(f[3:], " "))
	if err != nil {
		return nil, err
	}
	return &induction{v: f[0], up: f[1] == "up", bound: b}, nil
}

// lemmaStatement evaluates (requires ==> ensures) in env.
func lemmaStatement(env *Env, lm *Lemma) (Term, Term, error) {
	req, ens := tTrue, tTrue
	for _, r := range lm.Requires {
		t, err := env.evalBool(r.E)
		if err != nil {
			return Term{}, Term{}, err
		}
		req = and(req, t)
	}
	for _, e := range lm.Ensures {
		t, err := env.evalBool(e.E)
		if err != nil {
			return Term{}, Term{}, err
		}
		ens = and(ens, t)
	}
	return req, ens, nil
}

func generateLemma(prog *Program, specs *SpecDB, pkgKey string, lm *Lemma) *VC {
	heapInfo := map[string]*HeapInfo{}
	var vc *VC
	for pass := 0; pass < 4; pass++ {
		vc = newVC(prog, specs, nil, nil, heapInfo)
		vc.fname = pkgKey + ".lemma." + lm.Name
		st := vc.initialState()
		env := &Env{vc: vc, vars: map[string]TV{}, st: st, old: st, pkgKey: pkgKey}
		if pp := prog.PPkg[modulePrefix+pkgKey]; pp != nil {
			env.pkg = pp.Types
		}
		for i, p := range lm.Params {
			typ, sort := vc.lemmaParamType(env, lm.PTypes[i])
			v := Term{quote("l:" + p), sort}
			vc.lines = append(vc.lines, fmt.Sprintf("(declare-const %s %s)", v.S, sort))
			if typ != nil {
				vc.assume(tTrue, vc.typeFacts(v, typ, st.wm))
			}
			env.vars[p] = TV{v, typ}
		}
		for _, u := range lm.Uses {
			vc.useLemma(nil, env, pkgKey, u)
		}
		if lm.Induct == "" {
			for _, r := range lm.Requires {
				vc.assumeClause(tTrue, env, r)
			}
			vc.cover("requires", tTrue)
			for _, e := range lm.Ensures {
				vc.obligeClause("lemma", e.Label, labelOr(e.Label, "ensures"), tTrue, env, e)
			}
		} else {
			ind, err := parseInduction(lm.Induct)
			if err != nil {
				vc.errs = append(vc.errs, err.Error())
				return vc
			}
			kv, ok := env.vars[ind.v]
			if !ok {
				vc.errs = append(vc.errs, "induction variable "+ind.v+" is not a lemma parameter")
				return vc
			}
			bnd, err := env.eval(ind.bound)
			if err != nil {
				vc.errs = append(vc.errs, err.Error())
				return vc
			}
			base := vc.fresh("case:base", SBool)
			step := vc.fresh("case:step", SBool)
			// the requires of the statement at k hold in both cases
			for _, r := range lm.Requires {
				vc.assumeClause(tTrue, env, r)
			}
			vc.assume(base, eq(kv.T, bnd.T))
			var prev Term
			if ind.up {
				vc.assume(step, lt(bnd.T, kv.T))
				prev = sub(kv.T, intLit(1))
			} else {
				vc.assume(step, lt(kv.T, bnd.T))
				prev = add(kv.T, intLit(1))
			}
			// induction hypothesis: the statement at the neighbour
			penv := env.with(map[string]TV{ind.v: {prev, kv.Typ}})
			preq, pens, err := lemmaStatement(penv, lm)
			if err != nil {
				vc.errs = append(vc.errs, err.Error())
				return vc
			}
			vc.assume(step, implies(preq, pens))
			vc.cover("base", base)
			vc.cover("step", step)
			for _, e := range lm.Ensures {
				vc.obligeClause("lemma", e.Label, "base:"+labelOr(e.Label, "ensures"), base, env, e)
				vc.obligeClause("lemma", e.Label, "step:"+labelOr(e.Label, "ensures"), step, env, e)
			}
		}
		if !vc.newHeaps {
			break
		}
	}
	return vc
}

// useLemma assumes a proved lemma inside a function: its parameters are bound
// to the function's parameters and locals of the same name; the remaining
// integer parameters are universally quantified.
func (vc *VC) useLemma(fr *Frame, env *Env, pkgKey, name string) {
	vc.useLemmaGuarded(env, pkgKey, name, tTrue)
}

// useLemmaGuarded assumes lemma "NAME" or "NAME(arg, _, ...)" under a guard.
// With explicit arguments, "_" marks a parameter that stays universally
// quantified; otherwise parameters are bound to names in scope.
func (vc *VC) useLemmaGuarded(env *Env, pkgKey, spec string, guard Term) {
	name := spec
	var argSrc []string
	if k := strings.Index(spec, "("); k >= 0 && strings.HasSuffix(spec, ")") {
		name = strings.TrimSpace(spec[:k])
		for _, a := range splitTopLevel(spec[k+1 : len(spec)-1]) {
			argSrc = append(argSrc, strings.TrimSpace(a))
		}
	}
	pc := vc.specs.pkgs[pkgKey]
	if pc == nil || pc.Lemmas[name] == nil {
		vc.errs = append(vc.errs, "uses "+name+": no such lemma")
		return
	}
	lm := pc.Lemmas[name]
	indVar := ""
	if lm.Induct != "" {
		if ind, err := parseInduction(lm.Induct); err == nil {
			indVar = ind.v
		}
	}
	var free []string
	if argSrc != nil {
		if len(argSrc) != len(lm.Params) {
			vc.errs = append(vc.errs, fmt.Sprintf("uses %s: %d arguments, want %d", name, len(argSrc), len(lm.Params)))
			return
		}
		bind := map[string]TV{}
		for i, a := range argSrc {
			if a == "_" {
				free = append(free, lm.Params[i])
				continue
			}
			x, err := parseExpr(a)
			if err != nil {
				vc.errs = append(vc.errs, "uses "+name+": "+err.Error())
				return
			}
			tv, err := env.eval(x)
			if err != nil {
				vc.errs = append(vc.errs, "uses "+name+": "+err.Error())
				return
			}
			bind[lm.Params[i]] = tv
		}
		env = env.with(bind)
		// clause evaluation must not resolve lemma parameter names to locals
	} else {
		for i, p := range lm.Params {
			// the induction variable is always universally quantified; other
			// integer parameters are when nothing of that name is in scope
			if p == indVar || (!env.isVariable(p) && (lm.PTypes[i] == "int" || lm.PTypes[i] == "")) {
				free = append(free, p)
			} else if !env.isVariable(p) {
				vc.errs = append(vc.errs, "uses "+name+": parameter "+p+" is not in scope")
			}
		}
	}
	// statement: requires ==> ensures, with the induction range for the
	// induction variable
	var body Expr
	for _, e := range lm.Ensures {
		if body == nil {
			body = e.E
		} else {
			body = &EBin{"&&", body, e.E}
		}
	}
	var hyp Expr
	for _, r := range lm.Requires {
		if hyp == nil {
			hyp = r.E
		} else {
			hyp = &EBin{"&&", hyp, r.E}
		}
	}
	if lm.Induct != "" {
		if ind, err := parseInduction(lm.Induct); err == nil {
			var rng Expr
			if ind.up {
				rng = &EBin{">=", &EIdent{ind.v}, ind.bound}
			} else {
				rng = &EBin{"<=", &EIdent{ind.v}, ind.bound}
			}
			if hyp == nil {
				hyp = rng
			} else {
				hyp = &EBin{"&&", rng, hyp}
			}
		}
	}
	if hyp != nil {
		body = &EBin{"==>", hyp, body}
	}
	for i := len(free) - 1; i >= 0; i-- {
		body = &EQuant{Forall: true, Var: free[i], Body: body}
	}
	cl := &Clause{Kind: "lemma", Label: name, Src: "lemma " + name, E: body}
	// lemma clauses are written in the lemma's package
	lenv := *env
	lenv.pkgKey = pkgKey
	if pp := vc.prog.PPkg[modulePrefix+pkgKey]; pp != nil {
		lenv.pkg = pp.Types
	}
	vc.assumeClause(guard, &lenv, cl)
	for _, u := range vc.usedLemmas {
		if u == pkgKey+"."+name {
			return
		}
	}
	vc.usedLemmas = append(vc.usedLemmas, pkgKey+"."+name)
}

// splitTopLevel splits on commas that are not nested in brackets.
func splitTopLevel(s string) []string {
	var out []string
	depth, start := 0, 0
	for i := 0; i < len(s); i++ {
		switch s[i] {
		case '(', '[':
			depth++
		case ')', ']':
			depth--
		case ',':
			if depth == 0 {
				out = append(out, s[start:i])
				start = i + 1
			}
		}
	}
	return append(out, s[start:])
}
