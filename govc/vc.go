package main

// Core of the verification-condition generator: the symbolic state, the heap
// registry, sorts for Go types, locations (addresses) and obligations.

import (
	"os"
	"runtime/debug"
	"fmt"
	"go/types"
	"sort"
	"strings"

	"golang.org/x/tools/go/ssa"
)

type Obligation struct {
	Name      string
	Func      string
	Kind      string // post pre inv-entry inv-step frame nil bounds div0 ...
	Label     string
	PrefixLen int
	Guard     Term
	Goal      Term
	Src       string
	// results
	Status  string // discharged failed-model failed-unknown
	Solver  string
	Ms      int64
	Rlimit  int64 // z3 resource units spent by the deciding solver (deterministic effort measure)
	Model   string
	Output  string
	IsCover bool // cover query: must be satisfiable
	Extra   []string // obligation-local declarations and instances
	Inst      []string // heuristic instances of quantified assumptions (left out of the lean portfolio query)
}

type HeapInfo struct {
	Name string
	Sort Sort
	Typ  types.Type // Go type of the values held (when known)
	Kind string     // field ptr elem
}

// noteHeapType records the Go type of the values a heap holds, so that the
// entry state can state what the type system guarantees about them.
func (vc *VC) noteHeapType(name string, typ types.Type, kind string) {
	if info := vc.heapInfo[name]; info != nil && info.Typ == nil && typ != nil {
		info.Typ = typ
		info.Kind = kind
		vc.newHeaps = true
	}
}

// State is the symbolic store at one program point.
type State struct {
	cells map[ssa.Value]Term // *ssa.Alloc (non-escaping local) or *ssa.FreeVar (captured cell)
	heaps map[string]Term
	wm    Term // allocation watermark: every reference in existence is < wm
}

func (s *State) clone() *State {
	n := &State{cells: make(map[ssa.Value]Term, len(s.cells)), heaps: make(map[string]Term, len(s.heaps)), wm: s.wm}
	for k, v := range s.cells {
		n.cells[k] = v
	}
	for k, v := range s.heaps {
		n.heaps[k] = v
	}
	return n
}

// VC holds everything generated for one function under contract.
type VC struct {
	noKeepOld bool // the callee being havoced is declared "mutates": immutable types get no protection
	prog      *Program
	specs     *SpecDB
	fn        *ssa.Function
	fname     string
	contract  *FuncContract
	decls     []string
	declared  map[string]bool
	lines     []string
	obls      []*Obligation
	nfresh    int
	heapInfo  map[string]*HeapInfo // all heaps known (grows across passes)
	newHeaps  bool
	warnings  []string
	trusted   map[string]bool // extern / iface / opaque contracts used
	assumes   map[string]bool // assumptions used
	inlined   map[string]bool
	kindCount map[string]int
	deadLocals map[string]Term // unconstrained stand-ins for locals not live at a clause (by name)
	strConsts map[string]string
	typeTags  map[string]int
	entry     *State
	errs      []string
	errGlobals map[string]bool
	muted     bool // inside a Go function evaluated for a contract: no obligations
	curSt     *State
	curPos    string
	sl        *slicer
	usedLemmas []string
	heapReads map[string]Sort // collector of heap names read (recursive spec functions)
	recHeaps  map[string][]string // rec function -> heaps its body reads
	frameFacts []*FrameFact
	qfacts    []*QFact
	witnesses []*Witness
	skolemFns []*SkolemFn
	atCalleeEnsures string // set while the ensures clauses of a callee are assumed at a call site
	refTerms  map[string]bool // skolem constants / witnesses that stand for typed references
	deltas    []Term
	sortDecls *persistDecls
}

func (vc *VC) warn(format string, args ...interface{}) {
	w := fmt.Sprintf(format, args...)
	for _, x := range vc.warnings {
		if x == w {
			return
		}
	}
	vc.warnings = append(vc.warnings, w)
}

func (vc *VC) fresh(base string, sort Sort) Term {
	vc.nfresh++
	name := quote(fmt.Sprintf("%s!%d", base, vc.nfresh))
	vc.lines = append(vc.lines, fmt.Sprintf("(declare-const %s %s)", name, sort))
	return Term{name, sort}
}

// def names a term so that later uses do not duplicate it textually.
func (vc *VC) def(base string, t Term) Term {
	if len(t.S) < 24 && !strings.Contains(t.S, " ") {
		return t
	}
	vc.nfresh++
	name := quote(fmt.Sprintf("%s!%d", base, vc.nfresh))
	if base == "h" && t.Sort == "(Array Int Int)" && os.Getenv("GOVC_DEBUG") != "" {
		fmt.Fprintf(os.Stderr, "debug: def %s %s\n%s\n", name, t.S, debug.Stack())
	}
	vc.lines = append(vc.lines, fmt.Sprintf("(define-fun %s () %s %s)", name, t.Sort, t.S))
	return Term{name, t.Sort}
}

func (vc *VC) assume(guard, fact Term) {
	if fact.S == "true" {
		return
	}
	vc.lines = append(vc.lines, "(assert "+implies(guard, fact).S+")")
}

func (vc *VC) declare(key, decl string) {
	if vc.declared[key] {
		return
	}
	vc.declared[key] = true
	vc.decls = append(vc.decls, decl)
}

func (vc *VC) oblige(kind, label, site string, guard, goal Term, src string) *Obligation {
	if goal.S == "true" || vc.muted {
		return nil
	}
	vc.kindCount[kind+":"+site]++
	n := vc.kindCount[kind+":"+site]
	name := fmt.Sprintf("%s:%s:%s", vc.fname, kind, site)
	if n > 1 {
		name = fmt.Sprintf("%s#%d", name, n)
	}
	o := &Obligation{Name: name, Func: vc.fname, Kind: kind, Label: label, PrefixLen: len(vc.lines), Guard: guard, Goal: goal, Src: src}
	vc.obls = append(vc.obls, o)
	if label == "safety" && vc.curSt != nil && len(vc.qfacts) > 0 {
		// implicit safety obligations: offer the quantified assumptions
		// (e.g. "every element is non-nil") at the integer locals
		env := &Env{vc: vc, st: vc.curSt}
		vc.addInstances(o, vc.witnessCandidates(nil, env))
	}
	return o
}

func (vc *VC) cover(site string, guard Term) {
	name := fmt.Sprintf("%s:cover:%s", vc.fname, site)
	vc.kindCount["cover:"+site]++
	if n := vc.kindCount["cover:"+site]; n > 1 {
		name = fmt.Sprintf("%s#%d", name, n)
	}
	vc.obls = append(vc.obls, &Obligation{Name: name, Func: vc.fname, Kind: "cover", Label: "vacuity", PrefixLen: len(vc.lines), Guard: guard, Goal: tFalse, IsCover: true, Src: "reachability at " + vc.curPos})
}

// ------------------------------------------------------------------- sorts

func (vc *VC) sortOf(t types.Type) Sort {
	switch u := t.Underlying().(type) {
	case *types.Basic:
		switch {
		case u.Info()&types.IsBoolean != 0:
			return SBool
		case u.Info()&types.IsInteger != 0:
			return SInt
		case u.Info()&types.IsString != 0:
			return SStr
		case u.Info()&types.IsFloat != 0:
			return SReal
		case u.Kind() == types.UnsafePointer:
			return SInt
		case u.Kind() == types.UntypedNil:
			return SInt
		}
		return SInt
	case *types.Pointer, *types.Map, *types.Chan, *types.Signature, *types.Interface:
		return SInt
	case *types.Slice:
		return SSlice
	case *types.Struct:
		return vc.structSort(t, u)
	case *types.Array:
		return arraySort(SInt, vc.sortOf(u.Elem()))
	case *types.Tuple:
		return SInt
	case *types.TypeParam:
		return SInt
	}
	return SInt
}

func (vc *VC) structSort(t types.Type, st *types.Struct) Sort {
	key := typeKey(t)
	name := quote("S:" + key)
	if vc.declared["sort:"+name] {
		return name
	}
	vc.declared["sort:"+name] = true
	var fields []string
	for i := 0; i < st.NumFields(); i++ {
		f := st.Field(i)
		fields = append(fields, fmt.Sprintf("(%s %s)", structSel(t, f.Name(), i), vc.sortOf(f.Type())))
	}
	if len(fields) == 0 {
		fields = append(fields, fmt.Sprintf("(%s Int)", quote("S:"+key+".!unit")))
	}
	decl := fmt.Sprintf("(declare-datatypes ((%s 0)) (((%s %s))))", name, quote("mk:"+key), strings.Join(fields, " "))
	vc.decls = append(vc.decls, decl)
	if vc.sortDecls != nil {
		vc.sortDecls.lines = append(vc.sortDecls.lines, decl)
		vc.sortDecls.keys["sort:"+name] = true
	}
	return name
}

func structSel(t types.Type, field string, idx int) string {
	if field == "_" {
		field = fmt.Sprintf("_%d", idx)
	}
	return quote("S:" + typeKey(t) + "." + field)
}

func (vc *VC) mkStruct(t types.Type, fields []Term) Term {
	sort := vc.sortOf(t)
	key := typeKey(t)
	if len(fields) == 0 {
		return Term{"(" + quote("mk:"+key) + " 0)", sort}
	}
	var parts []string
	for _, f := range fields {
		parts = append(parts, f.S)
	}
	return Term{"(" + quote("mk:"+key) + " " + strings.Join(parts, " ") + ")", sort}
}

func (vc *VC) zero(t types.Type) Term {
	switch u := t.Underlying().(type) {
	case *types.Basic:
		switch {
		case u.Info()&types.IsBoolean != 0:
			return tFalse
		case u.Info()&types.IsString != 0:
			return Term{"str_empty", SStr}
		case u.Info()&types.IsFloat != 0:
			return Term{"0.0", SReal}
		}
		return tZero
	case *types.Slice:
		return tNilSl
	case *types.Struct:
		var fs []Term
		for i := 0; i < u.NumFields(); i++ {
			fs = append(fs, vc.zero(u.Field(i).Type()))
		}
		return vc.mkStruct(t, fs)
	case *types.Array:
		s := vc.sortOf(t)
		return Term{fmt.Sprintf("((as const %s) %s)", s, vc.zero(u.Elem()).S), s}
	}
	return tZero
}

// typeFacts returns what Go's type system guarantees about a value of type t
// in the state with watermark wm.
func (vc *VC) typeFacts(v Term, t types.Type, wm Term) Term {
	switch u := t.Underlying().(type) {
	case *types.Basic:
		if lo, hi, ok := intRange(u); ok {
			return and(le(bigLit(lo), v), le(v, bigLit(hi)))
		}
		if u.Info()&types.IsString != 0 {
			return le(tZero, Term{"(slen " + v.S + ")", SInt})
		}
	case *types.Pointer, *types.Map, *types.Chan:
		return and(le(tZero, v), lt(v, wm))
	case *types.Interface, *types.Signature:
		return le(tZero, v)
	case *types.Slice:
		return and(le(tZero, sOff(v)), le(tZero, sLen(v)), le(sLen(v), sCap(v)), le(add(sOff(v), sCap(v)), Term{"9223372036854775807", SInt}), le(tZero, sBase(v)), lt(sBase(v), wm),
			implies(eq(sBase(v), tZero), eq(sCap(v), tZero)))
	case *types.Struct:
		var fs []Term
		for i := 0; i < u.NumFields(); i++ {
			f := u.Field(i)
			fs = append(fs, vc.typeFacts(Term{"(" + structSel(t, f.Name(), i) + " " + v.S + ")", vc.sortOf(f.Type())}, f.Type(), wm))
		}
		return and(fs...)
	}
	return tTrue
}

// ------------------------------------------------------------------- heaps

func (vc *VC) heap(st *State, name string, sort Sort) Term {
	if vc.heapReads != nil {
		vc.heapReads[name] = sort
	}
	if t, ok := st.heaps[name]; ok {
		return t
	}
	// Unknown heap: register it; the pass is repeated with it pre-declared.
	if _, ok := vc.heapInfo[name]; !ok {
		vc.heapInfo[name] = &HeapInfo{Name: name, Sort: sort}
		vc.newHeaps = true
	}
	t := Term{quote(strings.Trim(name, "|") + "@0"), sort}
	vc.declare("heap0:"+name, fmt.Sprintf("(declare-const %s %s)", t.S, sort))
	st.heaps[name] = t
	return t
}

func (vc *VC) sortedHeapNames() []string {
	var names []string
	for n := range vc.heapInfo {
		names = append(names, n)
	}
	sort.Strings(names)
	return names
}

// havocHeap replaces a heap by a fresh array.
func (vc *VC) havocHeap(st *State, name string) {
	info := vc.heapInfo[name]
	if info == nil {
		return
	}
	prev, hadPrev := st.heaps[name]
	st.heaps[name] = vc.fresh("hv:"+strings.Trim(name, "|"), info.Sort)
	vc.refFacts(info, st.heaps[name], st.wm)
	if hadPrev && strings.HasPrefix(name, "|GH:") {
		if g := vc.specs.ghost(strings.TrimSuffix(strings.TrimPrefix(name, "|GH:"), "|")); g != nil && g.Counter && g.Elem == "int" {
			// ghost counters only grow, whatever an unknown callee does
			nv := sel(st.heaps[name], Term{"gk", SInt})
			vc.lines = append(vc.lines, fmt.Sprintf("(assert (forall ((gk Int)) (! (>= %s %s) :pattern (%s))))", nv.S, sel(prev, Term{"gk", SInt}).S, nv.S))
		}
	}
}

// refFacts states that every reference stored in a (fresh version of a) heap
// is below the given watermark and well formed for its type. Callers bump the
// watermark before havocing, so that references to objects allocated by the
// callee are covered.
func (vc *VC) refFacts(info *HeapInfo, h Term, wm Term) {
	if info.Typ == nil {
		return
	}
	switch info.Typ.Underlying().(type) {
	case *types.Pointer, *types.Slice, *types.Map, *types.Chan:
	default:
		return
	}
	switch info.Kind {
	case "field", "ptr":
		v := sel(h, Term{"er", SInt})
		vc.lines = append(vc.lines, fmt.Sprintf("(assert (forall ((er Int)) (! %s :pattern (%s))))", vc.typeFacts(v, info.Typ, wm).S, v.S))
	case "elem":
		v := sel(sel(h, Term{"er", SInt}), Term{"ei", SInt})
		vc.lines = append(vc.lines, fmt.Sprintf("(assert (forall ((er Int) (ei Int)) (! %s :pattern (%s))))", vc.typeFacts(v, info.Typ, wm).S, v.S))
	}
}

func (vc *VC) havocAllHeaps(st *State) {
	vc.bumpWatermark(st)
	for _, n := range vc.sortedHeapNames() {
		if vc.errGlobals[n] {
			continue
		}
		if vc.specs.isImmutableHeap(n) {
			// declared immutable: unknown callees are assumed not to write
			// fields of this type (listed assumption)
			vc.assumes["objects of the types declared immutable in the contract files are not written by unknown (dynamic / interface / external) callees"] = true
			continue
		}
		if vc.specs.isSetGhostHeap(n) {
			vc.assumes["ghost variables assigned by set clauses change only where a set clause says so (unknown callees do not call back into functions whose contracts carry set clauses)"] = true
			continue
		}
		if vc.specs.isPrivateHeap(n) {
			vc.assumes["fields of the struct types declared private in the contract files are written only by functions of their own package (unknown callees do not call back into it)"] = true
			continue
		}
		if isChanGhostHeap(n) {
			// the channel-operation ghosts count the operations executed by
			// the verified function itself (and by callees whose contracts
			// say so, see modularCall): unknown code does not change them
			continue
		}
		vc.havocHeap(st, n)
	}
}

// chanGhostNames are the ghost maps govc maintains at channel operations.
var chanGhostNames = []string{"chsends", "chrecvs", "chrecvsclosed", "chcloses", "chlast", "chlastrecv"}

func isChanGhostHeap(h string) bool {
	for _, g := range chanGhostNames {
		if h == quote("GH:"+g) {
			return true
		}
	}
	return false
}

func (vc *VC) bumpWatermark(st *State) {
	old := st.wm
	st.wm = vc.fresh("wm", SInt)
	vc.assume(tTrue, le(old, st.wm))
}

// ------------------------------------------------------------------- locations

type pathElem struct {
	isField bool
	field   int
	owner   types.Type // struct type (for field) or array type (for index)
	idx     Term
}

type Loc struct {
	kind  string // cell field elem ptr global
	cell  ssa.Value
	ref   Term   // field/ptr: object reference
	heap  string // heap name for field/ptr/global/elem
	hsort Sort
	slice Term // elem
	idx   Term // elem
	root  types.Type // type stored at the root location
	path  []pathElem
	typ   types.Type // type of the located value
}

func (l *Loc) extend(pe pathElem, typ types.Type) *Loc {
	n := *l
	n.path = append(append([]pathElem{}, l.path...), pe)
	n.typ = typ
	return &n
}

func (vc *VC) rootLoad(st *State, l *Loc) Term {
	switch l.kind {
	case "cell":
		t, ok := st.cells[l.cell]
		if !ok {
			// A cell that is not live on this path: unconstrained.
			t = vc.fresh("dead:"+l.cell.Name(), vc.sortOf(l.root))
			st.cells[l.cell] = t
		}
		return t
	case "field", "ptr":
		h := vc.heap(st, l.heap, l.hsort)
		if _, isArr := l.root.Underlying().(*types.Array); !isArr {
			vc.noteHeapType(l.heap, l.root, l.kind)
		}
		return sel(h, l.ref)
	case "elem":
		h := vc.heap(st, l.heap, l.hsort)
		vc.noteHeapType(l.heap, l.root, "elem")
		return sel(sel(h, sBase(l.slice)), add(sOff(l.slice), l.idx))
	case "global":
		return vc.heap(st, l.heap, l.hsort)
	}
	panic("bad loc kind " + l.kind)
}

func (vc *VC) rootStore(st *State, l *Loc, v Term) {
	switch l.kind {
	case "cell":
		st.cells[l.cell] = v
	case "field", "ptr":
		h := vc.heap(st, l.heap, l.hsort)
		st.heaps[l.heap] = vc.def("h", store(h, l.ref, v))
	case "elem":
		h := vc.heap(st, l.heap, l.hsort)
		base := sBase(l.slice)
		inner := store(sel(h, base), add(sOff(l.slice), l.idx), v)
		st.heaps[l.heap] = vc.def("h", store(h, base, inner))
	case "global":
		vc.heap(st, l.heap, l.hsort)
		st.heaps[l.heap] = v
	}
}

func (vc *VC) applyPath(v Term, path []pathElem) Term {
	for _, pe := range path {
		if pe.isField {
			st := pe.owner.Underlying().(*types.Struct)
			f := st.Field(pe.field)
			v = Term{"(" + structSel(pe.owner, f.Name(), pe.field) + " " + v.S + ")", vc.sortOf(f.Type())}
		} else {
			v = sel(v, pe.idx)
		}
	}
	return v
}

func (vc *VC) updatePath(root Term, path []pathElem, v Term) Term {
	if len(path) == 0 {
		return v
	}
	pe := path[0]
	if pe.isField {
		st := pe.owner.Underlying().(*types.Struct)
		var fs []Term
		for i := 0; i < st.NumFields(); i++ {
			f := st.Field(i)
			cur := Term{"(" + structSel(pe.owner, f.Name(), i) + " " + root.S + ")", vc.sortOf(f.Type())}
			if i == pe.field {
				cur = vc.updatePath(cur, path[1:], v)
			}
			fs = append(fs, cur)
		}
		return vc.mkStruct(pe.owner, fs)
	}
	inner := vc.updatePath(sel(root, pe.idx), path[1:], v)
	return store(root, pe.idx, inner)
}

func (vc *VC) load(st *State, l *Loc) Term {
	return vc.applyPath(vc.rootLoad(st, l), l.path)
}

func (vc *VC) storeLoc(st *State, l *Loc, v Term) {
	if len(l.path) == 0 {
		vc.rootStore(st, l, v)
		return
	}
	root := vc.rootLoad(st, l)
	root = vc.def("r", root)
	vc.rootStore(st, l, vc.def("u", vc.updatePath(root, l.path, v)))
}

// loadStructAt builds the struct value stored at reference ref from the
// per-field heaps.
func (vc *VC) loadStructAt(st *State, t types.Type, ref Term) Term {
	s := t.Underlying().(*types.Struct)
	var fs []Term
	for i := 0; i < s.NumFields(); i++ {
		f := s.Field(i)
		if f.Name() == "_" {
			// blank fields cannot be referred to by any Go code (and == ignores
			// them): they have no heap; every struct value carries the zero value
			fs = append(fs, vc.zero(f.Type()))
			continue
		}
		h := vc.heap(st, fieldHeapName(t, f.Name()), arraySort(SInt, vc.sortOf(f.Type())))
		fs = append(fs, sel(h, ref))
	}
	return vc.mkStruct(t, fs)
}

func (vc *VC) storeStructAt(st *State, t types.Type, ref Term, v Term) {
	s := t.Underlying().(*types.Struct)
	for i := 0; i < s.NumFields(); i++ {
		f := s.Field(i)
		if f.Name() == "_" {
			continue // blank field: no heap (see loadStructAt)
		}
		name := fieldHeapName(t, f.Name())
		h := vc.heap(st, name, arraySort(SInt, vc.sortOf(f.Type())))
		fv := Term{"(" + structSel(t, f.Name(), i) + " " + v.S + ")", vc.sortOf(f.Type())}
		st.heaps[name] = vc.def("h", store(h, ref, fv))
	}
}

// assumeRType records the dynamic type of a freshly allocated object:
// rtype(ref) is the tag of the allocated type (struct, map, slice backing
// array, channel, closure). References are untyped integers; contracts that
// quantify over all references of a type ("forall e *Entry :: ...") guard
// their bodies with isa(e, "Entry") to leave out objects of other types
// allocated in the same range.
func (vc *VC) assumeRType(pc Term, ref Term, t types.Type) {
	vc.declare("rtype", "(declare-fun rtype (Int) Int)")
	vc.assume(pc, eq(T(SInt, "(rtype %s)", ref.S), vc.typeTag(t)))
}

// allocRef returns a fresh reference and advances the watermark.
func (vc *VC) allocRef(st *State, guard Term) Term {
	r := vc.def("new", st.wm)
	if r.S == st.wm.S {
		r = st.wm
	}
	st.wm = vc.def("wm", add(st.wm, intLit(1)))
	return r
}

// strConst returns the constant for a string literal, with its length and
// character axioms.
func (vc *VC) strConst(s string) Term {
	if s == "" {
		return Term{"str_empty", SStr}
	}
	if n, ok := vc.strConsts[s]; ok {
		return Term{n, SStr}
	}
	name := quote(fmt.Sprintf("str:%d:%s", len(vc.strConsts), sanitize(s)))
	vc.strConsts[s] = name
	var b strings.Builder
	fmt.Fprintf(&b, "(declare-const %s Str)\n(assert (= (slen %s) %d))", name, name, len(s))
	for i := 0; i < len(s) && i < 64; i++ {
		fmt.Fprintf(&b, "\n(assert (= (sat %s %d) %d))", name, i, s[i])
	}
	vc.decls = append(vc.decls, b.String())
	return Term{name, SStr}
}

func sanitize(s string) string {
	var b strings.Builder
	for i := 0; i < len(s) && i < 24; i++ {
		c := s[i]
		if (c >= 'a' && c <= 'z') || (c >= 'A' && c <= 'Z') || (c >= '0' && c <= '9') || c == '_' || c == '-' || c == '.' {
			b.WriteByte(c)
		} else {
			b.WriteByte('_')
		}
	}
	return b.String()
}

func (vc *VC) typeTag(t types.Type) Term {
	k := typeKey(t)
	if n, ok := vc.typeTags[k]; ok {
		return intLit(int64(n))
	}
	n := len(vc.typeTags) + 1
	vc.typeTags[k] = n
	return intLit(int64(n))
}
