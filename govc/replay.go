package main

import "os"

// Counterexample replay against the real code (see replay templates under
// /verif/replay). Filled in per function; without a template the verdict is
// "no-input".

func runReplay(verif, repo string, ps *PropSpec, o *Obligation) (string, map[string]interface{}) {
	if os.Getenv("GOVC_NO_REPLAY") != "" {
		return "no-input", map[string]interface{}{"replay": "replay disabled (GOVC_NO_REPLAY)"}
	}
	return replayObligation(verif, repo, ps, o)
}
