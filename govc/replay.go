package main

// Counterexample replay against the real code (see replay templates under
// /verif/replay). Filled in per function; without a template the verdict is
// "no-input".

func runReplay(verif, repo string, ps *PropSpec, o *Obligation) (string, map[string]interface{}) {
	return replayObligation(verif, repo, ps, o)
}
