package main

// Thorough tier extras.
//
//  1. Cross-solver agreement: every obligation that one solver discharged is
//     re-submitted to the other two; a `sat` answer from any of them is a
//     disagreement, i.e. an infrastructure failure (exit 2) - nothing this run
//     reports could be believed. `unknown`/timeouts are tolerated and counted.
//  2. Teeth run: every must-fail mutant of the property
//     (/verif/selftest/mutants/<ID>-*.patch) is applied to a scratch copy of the
//     repository's current working tree and the quick check is run on it; it
//     has to report a violation. The result (run / caught / skipped because the
//     patch does not apply to the current tree / missed) goes into the evidence.
//     A missed mutant does not change the verdict about the tree under check;
//     it is reported loudly because it means a contract lost strength.

import (
	"bytes"
	"context"
	"fmt"
	"os"
	"os/exec"
	"path/filepath"
	"sort"
	"strings"
	"sync"
	"time"
)

type crossResult struct {
	Checked       int `json:"obligations_cross_checked"`
	AgreeAll      int `json:"confirmed_by_all_three"`
	AgreeTwo      int `json:"confirmed_by_two"`
	OnlyOne       int `json:"confirmed_by_one_only"`
	Disagreements []string `json:"disagreements"`
}

var thoroughCross *crossResult

func crossCheck(items []oblItem, dir string, timeoutMs, par int) *crossResult {
	res := &crossResult{}
	var mu sync.Mutex
	var wg sync.WaitGroup
	sem := make(chan struct{}, par)
	for i := range items {
		o := items[i].o
		if o.IsCover || o.Status != "discharged" {
			continue
		}
		wg.Add(1)
		sem <- struct{}{}
		go func(i int) {
			defer wg.Done()
			defer func() { <-sem }()
			it := items[i]
			file := filepath.Join(dir, fmt.Sprintf("x%05d.smt2", i))
			if err := os.WriteFile(file, []byte(it.vc.queryText(it.o, false)), 0o644); err != nil {
				return
			}
			defer os.Remove(file)
			agree := 1
			var bad []string
			for _, s := range solvers {
				if s.name == it.o.Solver {
					continue
				}
				r := runSolver(context.Background(), s, file, timeoutMs)
				switch r.verdict {
				case "unsat":
					agree++
				case "sat":
					bad = append(bad, fmt.Sprintf("%s: discharged by %s but %s answers sat", it.o.Name, it.o.Solver, s.name))
				}
			}
			mu.Lock()
			res.Checked++
			switch agree {
			case 3:
				res.AgreeAll++
			case 2:
				res.AgreeTwo++
			default:
				res.OnlyOne++
			}
			res.Disagreements = append(res.Disagreements, bad...)
			mu.Unlock()
		}(i)
	}
	wg.Wait()
	sort.Strings(res.Disagreements)
	return res
}

type teethResult struct {
	Run     int      `json:"mutants_run"`
	Caught  int      `json:"mutants_caught"`
	Skipped []string `json:"mutants_not_applicable_to_this_tree"`
	Missed  []string `json:"mutants_missed"`
	WallS   float64  `json:"wall_s"`
}

var thoroughTeeth *teethResult

// runTeeth applies each mutant of the property to a scratch copy of the
// working tree of repo and expects the quick check to fail on it.
func runTeeth(verif, repo, id string) *teethResult {
	start := time.Now()
	res := &teethResult{}
	patches, _ := filepath.Glob(filepath.Join(verif, "selftest", "mutants", id+"-*.patch"))
	if len(patches) == 0 {
		return res
	}
	sort.Strings(patches)
	self, err := os.Executable()
	if err != nil {
		return res
	}
	par := 4
	sem := make(chan struct{}, par)
	var wg sync.WaitGroup
	var mu sync.Mutex
	for _, p := range patches {
		wg.Add(1)
		sem <- struct{}{}
		go func(p string) {
			defer wg.Done()
			defer func() { <-sem }()
			name := filepath.Base(p)
			scratch, err := os.MkdirTemp("/var/tmp", "govc-teeth-")
			if err != nil {
				return
			}
			defer os.RemoveAll(scratch)
			tree := filepath.Join(scratch, "repo")
			// copy of the working tree (not of HEAD: the tree under check may carry edits)
			if out, err := exec.Command("cp", "-a", repo, tree).CombinedOutput(); err != nil {
				mu.Lock()
				res.Skipped = append(res.Skipped, name+": copy failed: "+truncate(string(out), 200))
				mu.Unlock()
				return
			}
			ap := exec.Command("git", "apply", p)
			ap.Dir = tree
			if out, err := ap.CombinedOutput(); err != nil {
				mu.Lock()
				res.Skipped = append(res.Skipped, name+": "+truncate(strings.TrimSpace(string(out)), 160))
				mu.Unlock()
				return
			}
			ctx, cancel := context.WithTimeout(context.Background(), 15*time.Minute)
			defer cancel()
			cmd := exec.CommandContext(ctx, self, "check", "--property", id, "--tier", "quick", "--repo", tree, "--verif", verif)
			cmd.Env = append(os.Environ(), "GOVC_EVIDENCE_DIR="+filepath.Join(scratch, "ev"), "GOVC_REPLAY_DIR="+filepath.Join(scratch, "replays"), "GOVC_JOBS=6")
			var out bytes.Buffer
			cmd.Stdout, cmd.Stderr = &out, &out
			err = cmd.Run()
			code := 0
			if ee, ok := err.(*exec.ExitError); ok {
				code = ee.ExitCode()
			} else if err != nil {
				code = -1
			}
			mu.Lock()
			res.Run++
			if code == 1 && strings.Contains(out.String(), "VIOLATION property="+id) {
				res.Caught++
			} else {
				res.Missed = append(res.Missed, fmt.Sprintf("%s (exit %d)", name, code))
			}
			mu.Unlock()
		}(p)
	}
	wg.Wait()
	sort.Strings(res.Skipped)
	sort.Strings(res.Missed)
	res.WallS = time.Since(start).Seconds()
	return res
}
