package ssh

// Demonstration for property C36 (finding): URL components that start with
// '-' pass url.Parse and (*URL).EnsureValid and reach the ssh / scp argument
// vector as separate words with no "--" separator, so OpenSSH reads them as
// options. Copy this file into pkg/agent/transport/ssh and run
//   go test -run TestC36 ./pkg/agent/transport/ssh/
// It uses recording fake ssh/scp executables (MUTAGEN_SSH_PATH).

import (
	"os"
	"path/filepath"
	"strings"
	"testing"

	"github.com/mutagen-io/mutagen/pkg/url"
)

func fakeTools(t *testing.T) (dir, record string) {
	dir = t.TempDir()
	record = filepath.Join(dir, "argv.txt")
	script := "#!/bin/sh\nfor a in \"$@\"; do printf '%s\\n' \"$a\" >> " + record + "; done\nexit 0\n"
	for _, name := range []string{"ssh", "scp"} {
		if err := os.WriteFile(filepath.Join(dir, name), []byte(script), 0o755); err != nil {
			t.Fatal(err)
		}
	}
	t.Setenv("MUTAGEN_SSH_PATH", dir)
	return
}

func TestC36OptionInjection(t *testing.T) {
	for _, raw := range []string{
		"-oProxyCommand=touch${IFS}pwned@example.org:/srv", // user starts with '-'
		"-oProxyCommand=evil:/srv",                          // host starts with '-'
	} {
		_, record := fakeTools(t)
		u, err := url.Parse(raw, url.Kind_Synchronization, true)
		if err != nil {
			t.Fatalf("%q rejected by Parse (good): %v", raw, err)
		}
		if err := u.EnsureValid(); err != nil {
			t.Fatalf("%q rejected by EnsureValid (good): %v", raw, err)
		}
		tr, _ := NewTransport(u.User, u.Host, uint16(u.Port), "")
		cmd, err := tr.Command("mutagen-agent synchronizer")
		if err != nil {
			t.Fatal(err)
		}
		t.Logf("url %q -> user=%q host=%q", raw, u.User, u.Host)
		t.Logf("ssh argv: %q", cmd.Args)
		sawSeparator := false
		for _, a := range cmd.Args[1:] {
			if a == "--" {
				sawSeparator = true
			}
			if !sawSeparator && strings.HasPrefix(a, "-oProxyCommand=") {
				t.Errorf("URL-derived word %q is in option position of the ssh command line", a)
			}
		}
		// scp (runs the recording fake)
		local := filepath.Join(t.TempDir(), "agent")
		os.WriteFile(local, []byte("x"), 0o644)
		if err := tr.Copy(local, ".mutagen-agent"); err != nil {
			t.Fatal(err)
		}
		data, _ := os.ReadFile(record)
		words := strings.Split(strings.TrimSpace(string(data)), "\n")
		t.Logf("scp argv: %q", words)
		for _, a := range words {
			if strings.HasPrefix(a, "-oProxyCommand=") {
				t.Errorf("URL-derived word %q is in option position of the scp command line", a)
			}
		}
	}
}
