package docker

// Demonstration for property C36 (finding), Docker side: a container name
// that starts with '-' passes url.Parse and EnsureValid and is placed in the
// docker argument vector as a word of its own in option position. Copy into
// pkg/agent/transport/docker and run: go test -run TestC36 ./pkg/agent/transport/docker/

import (
	"os"
	"path/filepath"
	"strings"
	"testing"

	"github.com/mutagen-io/mutagen/pkg/url"
)

func TestC36DockerOptionInjection(t *testing.T) {
	dir := t.TempDir()
	if err := os.WriteFile(filepath.Join(dir, "docker"), []byte("#!/bin/sh\nexit 0\n"), 0o755); err != nil {
		t.Fatal(err)
	}
	t.Setenv("MUTAGEN_DOCKER_PATH", dir)
	raw := "docker://--privileged/srv"
	u, err := url.Parse(raw, url.Kind_Synchronization, true)
	if err != nil {
		t.Fatalf("%q rejected by Parse (good): %v", raw, err)
	}
	if err := u.EnsureValid(); err != nil {
		t.Fatalf("%q rejected by EnsureValid (good): %v", raw, err)
	}
	tr, err := NewTransport(u.Host, u.User, u.Environment, u.Parameters, "")
	if err != nil {
		t.Fatal(err)
	}
	cmd, err := tr.(*dockerTransport).command("env", "", "")
	if err != nil {
		t.Fatal(err)
	}
	t.Logf("url %q -> container=%q", raw, u.Host)
	t.Logf("docker argv: %q", cmd.Args)
	for _, a := range cmd.Args[1:] {
		if a == "--" {
			break
		}
		if a == u.Host && strings.HasPrefix(a, "-") {
			t.Errorf("URL-derived container word %q is in option position of the docker command line", a)
		}
	}
}
