// pkgdir: pkg/synchronization/core
package core

// Replay for C12 (a scan lists every entry; counts match content). The failing
// obligation says that an iteration of the directory handler's content loop
// replaced an entry recorded by an earlier iteration. The concrete input is a
// directory holding a file whose name is not valid UTF-8 ("a\xff") next to a
// file whose valid name is exactly the derivative name the scanner records the
// first one under ("a� (non-UTF-8)"). The test scans that directory with
// the real Scan and compares the reported file count with the file entries in
// the content, and looks for the problem entry of the non-UTF-8 name.

import (
	"context"
	"crypto/sha1"
	"os"
	"path/filepath"
	"testing"

	"github.com/mutagen-io/mutagen/pkg/filesystem/behavior"
	mutagenignore "github.com/mutagen-io/mutagen/pkg/synchronization/core/ignore/mutagen"
)

const replayModel = `{{MODEL_JSON}}`

func TestReplayEscapeCollision(t *testing.T) {
	root := t.TempDir()
	invalid := "a\xff"
	escaped := "a� (non-UTF-8)"
	if err := os.WriteFile(filepath.Join(root, invalid), []byte("x"), 0600); err != nil {
		t.Log("REPLAY-NOT-REPRODUCED: the filesystem rejects non-UTF-8 names:", err)
		return
	}
	if err := os.WriteFile(filepath.Join(root, escaped), []byte("yy"), 0600); err != nil {
		t.Fatal(err)
	}
	ignorer, err := mutagenignore.NewIgnorer(nil)
	if err != nil {
		t.Fatal(err)
	}
	snapshot, _, _, err := Scan(context.Background(), root, nil, nil, sha1.New(), nil, ignorer, nil,
		behavior.ProbeMode_ProbeModeProbe, SymbolicLinkMode_SymbolicLinkModePortable, PermissionsMode_PermissionsModePortable)
	if err != nil {
		t.Fatal(err)
	}
	files, problems := 0, 0
	for name, e := range snapshot.Content.Contents {
		t.Logf("content %q kind %v", name, e.Kind)
		if e.Kind == EntryKind_File {
			files++
		} else if e.Kind == EntryKind_Problematic {
			problems++
		}
	}
	t.Logf("entries=%d file entries=%d problem entries=%d reported Files=%d TotalFileSize=%d",
		len(snapshot.Content.Contents), files, problems, snapshot.Files, snapshot.TotalFileSize)
	if uint64(files) != snapshot.Files || problems != 1 || len(snapshot.Content.Contents) != 2 {
		t.Logf("REPLAY-CONFIRMED: two directory entries, %d snapshot entries; snapshot reports %d files, content holds %d file entries and %d problems",
			len(snapshot.Content.Contents), snapshot.Files, files, problems)
		t.Fail()
		return
	}
	t.Log("REPLAY-NOT-REPRODUCED")
}
