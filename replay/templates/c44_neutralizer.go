// pkgdir: pkg/platform/terminal
package terminal

// Replay for C44's control-character neutraliser: "carriage returns and
// escape characters can never forge additional lines or terminal control
// sequences". Family: every string of length 0..6 over {a, [, ESC, CR, LF}.
// Oracle: the result contains no ESC and no CR byte, has exactly as many LF
// bytes as the input, and keeps every other input byte in order.

import (
	"fmt"
	"strings"
	"testing"
)

const replayModelC44Neutral = `{{MODEL_JSON}}`

func TestReplayNeutralizeControlCharacters(t *testing.T) {
	alphabet := "a[\x1b\r\n"
	inputs := []string{""}
	for start, l := 0, 0; l < 6; l++ {
		end := len(inputs)
		for _, s := range inputs[start:end] {
			for i := 0; i < len(alphabet); i++ {
				inputs = append(inputs, s+alphabet[i:i+1])
			}
		}
		start = end
	}
	for _, in := range inputs {
		out := NeutralizeControlCharacters(in)
		bad := ""
		switch {
		case strings.IndexByte(out, 0x1b) >= 0:
			bad = "the result contains an ESC byte"
		case strings.IndexByte(out, '\r') >= 0:
			bad = "the result contains a carriage return"
		case strings.Count(out, "\n") != strings.Count(in, "\n"):
			bad = "the number of line feeds changed"
		default:
			// the other bytes of the input are kept in order
			j := 0
			for i := 0; i < len(in); i++ {
				if in[i] == 0x1b || in[i] == '\r' {
					continue
				}
				k := strings.IndexByte(out[j:], in[i])
				if k < 0 {
					bad = fmt.Sprintf("input byte %q (index %d) is lost", in[i], i)
					break
				}
				j += k + 1
			}
		}
		if bad != "" {
			fmt.Printf("REPLAY-CONFIRMED: NeutralizeControlCharacters(%q) = %q: %s\n", in, out, bad)
			return
		}
	}
	fmt.Printf("REPLAY-NOT-REPRODUCED after %d strings\n", len(inputs))
}
