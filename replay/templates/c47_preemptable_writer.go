// pkgdir: pkg/stream
package stream

// Replay for C47, preemptable writer: "stops within its check interval after
// cancellation". Search family: check intervals 0..5, cancellation after
// 0..14 writes, 14 further writes. Oracle: before cancellation every write is
// forwarded unchanged and never preempted; after cancellation at most
// checkInterval further writes reach the downstream writer, a preempted write
// reaches nothing downstream, and once preempted the writer stays preempted
// within the same bound.

import (
	"fmt"
	"testing"
)

const replayModelC47Preempt = `{{MODEL_JSON}}`

type c47CountDown struct{ calls, bytes int }

func (d *c47CountDown) Write(p []byte) (int, error) { d.calls++; d.bytes += len(p); return len(p), nil }

func TestReplayPreemptableWriter(t *testing.T) {
	runs := 0
	for interval := uint(0); interval <= 5; interval++ {
		for before := 0; before <= 14; before++ {
			runs++
			down := &c47CountDown{}
			cancelled := make(chan struct{})
			w := NewPreemptableWriter(down, cancelled, interval)
			desc := fmt.Sprintf("check interval %d, cancellation after %d writes", interval, before)
			for i := 0; i < before; i++ {
				n, err := w.Write([]byte{1, 2})
				if n != 2 || err != nil || down.calls != i+1 {
					fmt.Printf("REPLAY-CONFIRMED: %s: write #%d before cancellation returned (%d, %v) with %d downstream calls\n", desc, i+1, n, err, down.calls)
					return
				}
			}
			close(cancelled)
			callsAt := down.calls
			sinceCheck := 0
			for i := 0; i < 14; i++ {
				calls := down.calls
				n, err := w.Write([]byte{3})
				if err == ErrWritePreempted {
					sinceCheck = 0
					if n != 0 || down.calls != calls {
						fmt.Printf("REPLAY-CONFIRMED: %s: preempted write returned count %d and made %d downstream calls\n", desc, n, down.calls-calls)
						return
					}
					continue
				}
				sinceCheck++
				if uint(sinceCheck) > interval {
					fmt.Printf("REPLAY-CONFIRMED: %s: %d consecutive writes reached the downstream writer after cancellation (write #%d after it returned (%d, %v)); the bound is the check interval %d\n",
						desc, sinceCheck, i+1, n, err, interval)
					return
				}
			}
			_ = callsAt
		}
	}
	fmt.Printf("REPLAY-NOT-REPRODUCED after %d runs\n", runs)
}
