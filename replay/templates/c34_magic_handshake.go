// pkgdir: pkg/agent
package agent

// Replay for C34 (magic-number handshake): "accepted by both client and server
// exactly when both sides send the expected magic numbers; any mismatch,
// truncated or corrupted handshake makes both sides fail". Family searched on
// the real ClientHandshake / ServerHandshake: a peer sending the expected
// 3-byte magic number in fragments of 1 or 3 bytes; every single-bit
// corruption and every single-byte replacement by 0x00 / 0xff / the other
// side's byte; the other side's magic number; every truncation point 0..2; a
// stream whose writes fail; and the real client against the real server over
// an in-memory duplex connection. Oracle: accept iff the three bytes received
// are exactly the peer's magic number and the own send succeeded; on
// acceptance the bytes sent are exactly the own magic number.

import (
	"bytes"
	"errors"
	"fmt"
	"io"
	"testing"
	"time"
)

const replayModelC34Magic = `{{MODEL_JSON}}`

type c34MagicStream struct {
	in        []byte
	fragment  int
	out       []byte
	failWrite bool
}

func (s *c34MagicStream) Read(p []byte) (int, error) {
	if len(s.in) == 0 {
		return 0, io.EOF
	}
	n := len(p)
	if n > s.fragment {
		n = s.fragment
	}
	if n > len(s.in) {
		n = len(s.in)
	}
	copy(p, s.in[:n])
	s.in = s.in[n:]
	return n, nil
}

func (s *c34MagicStream) Write(p []byte) (int, error) {
	if s.failWrite {
		return 0, errors.New("injected write failure")
	}
	s.out = append(s.out, p...)
	return len(p), nil
}

type c34MagicDuplex struct {
	io.Reader
	io.Writer
}

func TestReplayMagicHandshake(t *testing.T) {
	sides := []struct {
		name       string
		run        func(io.ReadWriter) error
		expect, my []byte
	}{
		{"ClientHandshake", ClientHandshake, serverMagicNumber[:], clientMagicNumber[:]},
		{"ServerHandshake", ServerHandshake, clientMagicNumber[:], serverMagicNumber[:]},
	}
	runs := 0
	for _, side := range sides {
		type input struct {
			desc  string
			bytes []byte
		}
		inputs := []input{{"the expected magic number", side.expect}, {"the receiving side's own magic number", side.my}}
		for i := 0; i < 3; i++ {
			for bit := 0; bit < 8; bit++ {
				b := append([]byte(nil), side.expect...)
				b[i] ^= 1 << bit
				inputs = append(inputs, input{fmt.Sprintf("byte %d with bit %d flipped", i, bit), b})
			}
			for _, v := range []byte{0x00, 0xff, side.my[i]} {
				b := append([]byte(nil), side.expect...)
				b[i] = v
				inputs = append(inputs, input{fmt.Sprintf("byte %d replaced by %#02x", i, v), b})
			}
		}
		for cut := 0; cut < 3; cut++ {
			inputs = append(inputs, input{fmt.Sprintf("magic number truncated after %d bytes", cut), side.expect[:cut]})
		}
		for _, in := range inputs {
			for _, fragment := range []int{3, 1} {
				for _, failWrite := range []bool{false, true} {
					runs++
					s := &c34MagicStream{in: append([]byte(nil), in.bytes...), fragment: fragment, failWrite: failWrite}
					err := side.run(s)
					wantAccept := bytes.Equal(in.bytes, side.expect) && !failWrite
					desc := fmt.Sprintf("%s, peer sends %s = % x in fragments of %d, own writes fail: %v", side.name, in.desc, in.bytes, fragment, failWrite)
					if wantAccept && err != nil {
						fmt.Printf("REPLAY-CONFIRMED: %s: rejected the expected magic number (%v)\n", desc, err)
						return
					}
					if !wantAccept && err == nil {
						fmt.Printf("REPLAY-CONFIRMED: %s: the handshake was accepted (expected magic number % x)\n", desc, side.expect)
						return
					}
					if err == nil && !bytes.Equal(s.out, side.my) {
						fmt.Printf("REPLAY-CONFIRMED: %s: accepted, but sent % x instead of its magic number % x\n", desc, s.out, side.my)
						return
					}
				}
			}
		}
	}
	// the real client against the real server
	c2sR, c2sW := io.Pipe()
	s2cR, s2cW := io.Pipe()
	results := make(chan string, 2)
	go func() { results <- fmt.Sprintf("client: %v", ClientHandshake(c34MagicDuplex{s2cR, c2sW})) }()
	go func() { results <- fmt.Sprintf("server: %v", ServerHandshake(c34MagicDuplex{c2sR, s2cW})) }()
	for i := 0; i < 2; i++ {
		select {
		case r := <-results:
			if r != "client: <nil>" && r != "server: <nil>" {
				fmt.Printf("REPLAY-CONFIRMED: real client against real server over a lossless stream: %s\n", r)
				c2sR.CloseWithError(io.ErrClosedPipe)
				s2cR.CloseWithError(io.ErrClosedPipe)
				return
			}
		case <-time.After(10 * time.Second):
			fmt.Printf("REPLAY-CONFIRMED: real client against real server did not complete within 10 s\n")
			return
		}
	}
	fmt.Printf("REPLAY-NOT-REPRODUCED after %d runs\n", runs)
}
