// pkgdir: pkg/synchronization/core/ignore
package ignore

// Replay for C14's VCS clause ("version-control directories are excluded when
// that option is on"). Family: paths of depth 1..3 whose components come from
// the VCS names and near-misses, as file and as directory, over wrapped
// ignorers answering each of the three statuses. Oracle: a directory whose
// final component is .git/.svn/.hg/.bzr/_darcs is ignored; anything else gets
// exactly the wrapped ignorer's answer.

import (
	"fmt"
	"testing"
)

const replayModelC14VCS = `{{MODEL_JSON}}`

type c14Fixed struct {
	status IgnoreStatus
	cont   bool
	calls  int
}

func (f *c14Fixed) Ignore(string, bool) (IgnoreStatus, bool) { f.calls++; return f.status, f.cont }

func TestReplayVCSIgnorer(t *testing.T) {
	vcs := map[string]bool{".git": true, ".svn": true, ".hg": true, ".bzr": true, "_darcs": true}
	names := []string{".git", ".svn", ".hg", ".bzr", "_darcs", "git", ".gitignore", ".git2", "a", "_darcs_"}
	var paths []string
	for _, x := range names {
		paths = append(paths, x, "a/"+x, x+"/a", "a/b/"+x, x+"/"+x)
	}
	runs := 0
	for _, status := range []IgnoreStatus{IgnoreStatusNominal, IgnoreStatusIgnored, IgnoreStatusUnignored} {
		for _, cont := range []bool{false, true} {
			for _, path := range paths {
				for _, directory := range []bool{false, true} {
					runs++
					inner := &c14Fixed{status: status, cont: cont}
					got, gotCont := IgnoreVCS(inner).Ignore(path, directory)
					last := path
					for i := len(path) - 1; i >= 0; i-- {
						if path[i] == '/' {
							last = path[i+1:]
							break
						}
					}
					want, wantCont := status, cont
					if directory && vcs[last] {
						want, wantCont = IgnoreStatusIgnored, false
					}
					if got != want || gotCont != wantCont {
						fmt.Printf("REPLAY-CONFIRMED: path %q (directory=%v) over a wrapped ignorer answering (%d, %v): the VCS ignorer returned (%d, %v), want (%d, %v)\n",
							path, directory, status, cont, got, gotCont, want, wantCont)
						return
					}
				}
			}
		}
	}
	fmt.Printf("REPLAY-NOT-REPRODUCED after %d evaluations\n", runs)
}
