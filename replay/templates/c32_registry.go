// pkgdir: pkg/prompting
package prompting

// Replay for C32 (prompter registry): "A registered prompter is never invoked
// concurrently with itself and is never invoked after its unregistration has
// returned". The failed obligations are about the token discipline of the
// holder channel; the replay drives the real registry with real goroutines
// through the schedules in which a broken discipline shows:
//  1. a prompter whose Message/Prompt blocks inside while a second caller
//     arrives (overlap = concurrent invocation);
//  2. unregistration while an invocation is in progress (it must wait for the
//     invocation to end, and the invocation must end normally afterwards);
//  3. a failing Message/Prompt followed by further calls and unregistration
//     (the prompter stays available until it is unregistered);
//  4. after unregistration: calls must fail without invoking, and the
//     identifier is free to be registered again;
//  5. a randomized race of callers against unregistration (600 rounds of four looping callers).
// Invocations are logged with an in-flight counter and an "unregistration
// returned" flag; panics of registry functions are caught and reported.

import (
	"errors"
	"fmt"
	"runtime"
	"strings"
	"sync"
	"sync/atomic"
	"testing"
	"time"
)

const replayModelC32Registry = `{{MODEL_JSON}}`

type c32Prompter struct {
	inFlight     int32
	overlaps     int32
	afterUnreg   int32
	unregistered int32
	calls        int32
	entered      chan struct{} // signalled on every entry (if non-nil)
	release      chan struct{} // every invocation waits for it (if non-nil)
	fail         bool
}

func (p *c32Prompter) enter() {
	atomic.AddInt32(&p.calls, 1)
	if atomic.LoadInt32(&p.unregistered) != 0 {
		atomic.AddInt32(&p.afterUnreg, 1)
	}
	if atomic.AddInt32(&p.inFlight, 1) > 1 {
		atomic.AddInt32(&p.overlaps, 1)
	}
	if p.entered != nil {
		p.entered <- struct{}{}
	}
	if p.release != nil {
		<-p.release
	}
}

func (p *c32Prompter) leave() { atomic.AddInt32(&p.inFlight, -1) }

func (p *c32Prompter) Message(string) error {
	p.enter()
	defer p.leave()
	if p.fail {
		return errors.New("injected prompter failure")
	}
	return nil
}

func (p *c32Prompter) Prompt(string) (string, error) {
	p.enter()
	defer p.leave()
	if p.fail {
		return "", errors.New("injected prompter failure")
	}
	return "response", nil
}

// c32Call runs f in a goroutine, converting a panic into an error string.
func c32Call(f func() error) chan string {
	done := make(chan string, 1)
	go func() {
		defer func() {
			if r := recover(); r != nil {
				done <- fmt.Sprintf("panic: %v", r)
			}
		}()
		if err := f(); err != nil {
			done <- "error: " + err.Error()
		} else {
			done <- "ok"
		}
	}()
	return done
}

func c32Wait(ch chan string, d time.Duration) (string, bool) {
	select {
	case r := <-ch:
		return r, true
	case <-time.After(d):
		return "", false
	}
}

var c32Counter int

func c32ID() string { c32Counter++; return fmt.Sprintf("c32-replay-%d", c32Counter) }

type c32Method struct {
	name string
	call func(id string) error
}

func c32Methods() []c32Method {
	return []c32Method{
		{"Message", func(id string) error { return Message(id, "m") }},
		{"Prompt", func(id string) error { _, err := Prompt(id, "p"); return err }},
	}
}

// scenario 1 and 2: overlap and unregistration during an invocation
func c32Blocking(first, second c32Method) string {
	id := c32ID()
	p := &c32Prompter{entered: make(chan struct{}, 16), release: make(chan struct{})}
	if err := RegisterPrompterWithIdentifier(id, p); err != nil {
		return ""
	}
	desc := fmt.Sprintf("prompter registered; %s #1 is inside the prompter; ", first.name)
	a := c32Call(func() error { return first.call(id) })
	select {
	case <-p.entered:
	case <-time.After(5 * time.Second):
		return desc + "the first call never reached the prompter"
	}
	b := c32Call(func() error { return second.call(id) })
	select {
	case <-p.entered:
		close(p.release)
		return desc + fmt.Sprintf("a concurrent %s #2 entered the same prompter while #1 was still inside (concurrent invocation)", second.name)
	case <-time.After(150 * time.Millisecond):
	}
	u := c32Call(func() error { UnregisterPrompter(id); atomic.StoreInt32(&p.unregistered, 1); return nil })
	if r, ok := c32Wait(u, 150*time.Millisecond); ok {
		inside := atomic.LoadInt32(&p.inFlight)
		close(p.release)
		ra, _ := c32Wait(a, 5*time.Second)
		return desc + fmt.Sprintf("UnregisterPrompter returned (%s) while %d invocation(s) were still inside the prompter; call #1 then ended with %q", r, inside, ra)
	}
	close(p.release)
	ra, okA := c32Wait(a, 5*time.Second)
	rb, okB := c32Wait(b, 5*time.Second)
	ru, okU := c32Wait(u, 5*time.Second)
	switch {
	case !okA || !okB || !okU:
		return desc + fmt.Sprintf("after the prompter was released: call #1 returned=%v, call #2 returned=%v, UnregisterPrompter returned=%v within 5 s", okA, okB, okU)
	case ra != "ok":
		return desc + "call #1 ended with " + ra
	case strings.HasPrefix(rb, "panic"):
		return desc + fmt.Sprintf("waiting %s #2 ended with %s", second.name, rb)
	case ru != "ok":
		return desc + "UnregisterPrompter ended with " + ru
	}
	if n := atomic.LoadInt32(&p.overlaps); n > 0 {
		return desc + fmt.Sprintf("%d overlapping invocations were observed", n)
	}
	if n := atomic.LoadInt32(&p.afterUnreg); n > 0 {
		return desc + fmt.Sprintf("%d invocations started after UnregisterPrompter had returned", n)
	}
	return ""
}

// scenario 3 and 4
func c32FailThenUse(m c32Method) string {
	id := c32ID()
	p := &c32Prompter{fail: true}
	if err := RegisterPrompterWithIdentifier(id, p); err != nil {
		return ""
	}
	desc := fmt.Sprintf("prompter registered; its %s fails; ", m.name)
	for i := 1; i <= 2; i++ {
		r, ok := c32Wait(c32Call(func() error { return m.call(id) }), 2*time.Second)
		if !ok {
			return desc + fmt.Sprintf("%s #%d on the still registered prompter did not return within 2 s (%d invocations so far)", m.name, i, atomic.LoadInt32(&p.calls))
		}
		if r == "ok" || strings.HasPrefix(r, "panic") || int(atomic.LoadInt32(&p.calls)) != i {
			return desc + fmt.Sprintf("%s #%d ended with %q after %d invocations of the prompter", m.name, i, r, atomic.LoadInt32(&p.calls))
		}
	}
	u := c32Call(func() error { UnregisterPrompter(id); atomic.StoreInt32(&p.unregistered, 1); return nil })
	if r, ok := c32Wait(u, 2*time.Second); !ok || r != "ok" {
		return desc + fmt.Sprintf("UnregisterPrompter of the idle prompter: returned=%v %s", ok, r)
	}
	calls := atomic.LoadInt32(&p.calls)
	for _, m2 := range c32Methods() {
		r, ok := c32Wait(c32Call(func() error { return m2.call(id) }), 2*time.Second)
		if !ok || r == "ok" || strings.HasPrefix(r, "panic") || atomic.LoadInt32(&p.calls) != calls {
			return desc + fmt.Sprintf("after UnregisterPrompter returned, %s: returned=%v result %q, prompter invoked %d more times", m2.name, ok, r, atomic.LoadInt32(&p.calls)-calls)
		}
	}
	q := &c32Prompter{}
	if err := RegisterPrompterWithIdentifier(id, q); err != nil {
		return desc + fmt.Sprintf("after UnregisterPrompter returned, the identifier could not be registered again: %v", err)
	}
	r, ok := c32Wait(c32Call(func() error { return Message(id, "m") }), 2*time.Second)
	if !ok || r != "ok" || atomic.LoadInt32(&q.calls) != 1 || atomic.LoadInt32(&p.calls) != calls {
		return desc + fmt.Sprintf("after re-registration Message: returned=%v result %q, new prompter invoked %d times, old prompter %d more times", ok, r, atomic.LoadInt32(&q.calls), atomic.LoadInt32(&p.calls)-calls)
	}
	if r, ok := c32Wait(c32Call(func() error { UnregisterPrompter(id); return nil }), 2*time.Second); !ok || r != "ok" {
		return desc + fmt.Sprintf("second UnregisterPrompter: returned=%v %s", ok, r)
	}
	return ""
}

// scenario 5: callers racing with unregistration. Four goroutines call
// Message/Prompt in a loop (until the registry turns them away) while a fifth
// unregisters the prompter at a varying moment.
func c32Race(rounds int) string {
	for round := 0; round < rounds; round++ {
		id := c32ID()
		p := &c32Prompter{}
		if err := RegisterPrompterWithIdentifier(id, p); err != nil {
			return ""
		}
		start := make(chan struct{})
		var wg sync.WaitGroup
		var bad atomic.Value
		for i := 0; i < 4; i++ {
			m := c32Methods()[i%2]
			wg.Add(1)
			go func() {
				defer wg.Done()
				defer func() {
					if r := recover(); r != nil {
						bad.Store(fmt.Sprintf("%s racing with UnregisterPrompter panicked: %v", m.name, r))
					}
				}()
				<-start
				for k := 0; k < 100000; k++ {
					if m.call(id) != nil {
						return
					}
				}
			}()
		}
		wg.Add(1)
		go func() {
			defer wg.Done()
			defer func() {
				if r := recover(); r != nil {
					bad.Store(fmt.Sprintf("UnregisterPrompter racing with callers panicked: %v", r))
				}
			}()
			<-start
			for spin := 0; spin < (round%50)*40; spin++ {
				runtime.Gosched()
			}
			UnregisterPrompter(id)
			atomic.StoreInt32(&p.unregistered, 1)
		}()
		close(start)
		finished := make(chan struct{})
		go func() { wg.Wait(); close(finished) }()
		select {
		case <-finished:
		case <-time.After(5 * time.Second):
			return fmt.Sprintf("round %d: four callers racing with UnregisterPrompter did not all return within 5 s", round)
		}
		if b := bad.Load(); b != nil {
			return fmt.Sprintf("round %d: %s", round, b)
		}
		if atomic.LoadInt32(&p.overlaps) > 0 || atomic.LoadInt32(&p.afterUnreg) > 0 {
			return fmt.Sprintf("round %d: four callers racing with UnregisterPrompter: %d overlapping invocations, %d invocations started after unregistration returned",
				round, atomic.LoadInt32(&p.overlaps), atomic.LoadInt32(&p.afterUnreg))
		}
	}
	return ""
}

func TestReplayPrompterRegistry(t *testing.T) {
	ms := c32Methods()
	for _, first := range ms {
		for _, second := range ms {
			if bad := c32Blocking(first, second); bad != "" {
				fmt.Printf("REPLAY-CONFIRMED: %s\n", bad)
				return
			}
		}
	}
	for _, m := range ms {
		if bad := c32FailThenUse(m); bad != "" {
			fmt.Printf("REPLAY-CONFIRMED: %s\n", bad)
			return
		}
	}
	if bad := c32Race(600); bad != "" {
		fmt.Printf("REPLAY-CONFIRMED: %s\n", bad)
		return
	}
	fmt.Printf("REPLAY-NOT-REPRODUCED (blocking-prompter schedules, failing prompter, re-registration, 600 race rounds)\n")
}
