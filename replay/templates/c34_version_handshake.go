// pkgdir: pkg/mutagen
package mutagen

// Replay for C34 (version handshake): "accepted by both client and server
// exactly when both sides send ... identical major, minor and patch versions;
// any mismatch, truncated or corrupted handshake makes both sides fail".
// Family searched on the real ClientVersionHandshake / ServerVersionHandshake:
// a peer sending the own version encoded independently (12 bytes, three
// big-endian 32-bit fields) in fragments of 1, 5 or 12 bytes; every
// single-field perturbation (+1, -1, +256, top bit flipped); every single-byte
// corruption with masks 0x01, 0x80, 0xff; every truncation point 0..11; a
// stream whose writes fail; and the real client against the real server over
// an in-memory duplex connection. Oracle: accept iff the 12 bytes received
// are exactly the own version and the own send succeeded; on acceptance the
// bytes sent are exactly the own version.

import (
	"bytes"
	"errors"
	"fmt"
	"io"
	"testing"
	"time"
)

const replayModelC34Version = `{{MODEL_JSON}}`

func c34Encode(major, minor, patch uint32) []byte {
	var out []byte
	for _, v := range []uint32{major, minor, patch} {
		out = append(out, byte(v>>24), byte(v>>16), byte(v>>8), byte(v))
	}
	return out
}

// c34Stream feeds scripted bytes in fragments and records what is written.
type c34Stream struct {
	in        []byte
	fragment  int
	out       []byte
	failWrite bool
}

func (s *c34Stream) Read(p []byte) (int, error) {
	if len(s.in) == 0 {
		return 0, io.EOF
	}
	n := len(p)
	if n > s.fragment {
		n = s.fragment
	}
	if n > len(s.in) {
		n = len(s.in)
	}
	copy(p, s.in[:n])
	s.in = s.in[n:]
	return n, nil
}

func (s *c34Stream) Write(p []byte) (int, error) {
	if s.failWrite {
		return 0, errors.New("injected write failure")
	}
	s.out = append(s.out, p...)
	return len(p), nil
}

func (s *c34Stream) Close() error { return nil }

type c34Duplex struct {
	io.Reader
	io.Writer
}

func (c34Duplex) Close() error { return nil }

func TestReplayVersionHandshake(t *testing.T) {
	own := c34Encode(VersionMajor, VersionMinor, VersionPatch)
	type input struct {
		desc  string
		bytes []byte
	}
	inputs := []input{{"the own version", own}}
	fields := [3]uint32{VersionMajor, VersionMinor, VersionPatch}
	names := [3]string{"major", "minor", "patch"}
	for i := range fields {
		for _, delta := range []uint32{1, ^uint32(0), 256, 1 << 31} {
			f := fields
			f[i] += delta
			inputs = append(inputs, input{fmt.Sprintf("version %d.%d.%d (%s perturbed)", f[0], f[1], f[2], names[i]), c34Encode(f[0], f[1], f[2])})
		}
	}
	for i := 0; i < 12; i++ {
		for _, mask := range []byte{0x01, 0x80, 0xff} {
			b := append([]byte(nil), own...)
			b[i] ^= mask
			inputs = append(inputs, input{fmt.Sprintf("byte %d corrupted (xor %#02x)", i, mask), b})
		}
	}
	for cut := 0; cut < 12; cut++ {
		inputs = append(inputs, input{fmt.Sprintf("handshake truncated after %d bytes", cut), own[:cut]})
	}
	sides := []struct {
		name string
		run  func(io.ReadWriteCloser) error
	}{{"ClientVersionHandshake", ClientVersionHandshake}, {"ServerVersionHandshake", ServerVersionHandshake}}
	runs := 0
	for _, side := range sides {
		for _, in := range inputs {
			for _, fragment := range []int{12, 5, 1} {
				for _, failWrite := range []bool{false, true} {
					runs++
					s := &c34Stream{in: append([]byte(nil), in.bytes...), fragment: fragment, failWrite: failWrite}
					err := side.run(s)
					wantAccept := bytes.Equal(in.bytes, own) && !failWrite
					desc := fmt.Sprintf("%s, peer sends %s = % x in fragments of %d, own writes fail: %v", side.name, in.desc, in.bytes, fragment, failWrite)
					if wantAccept && err != nil {
						fmt.Printf("REPLAY-CONFIRMED: %s: rejected an identical version (%v)\n", desc, err)
						return
					}
					if !wantAccept && err == nil {
						fmt.Printf("REPLAY-CONFIRMED: %s: the handshake was accepted (own version % x)\n", desc, own)
						return
					}
					if err == nil && !bytes.Equal(s.out, own) {
						fmt.Printf("REPLAY-CONFIRMED: %s: accepted, but sent % x instead of the own version % x\n", desc, s.out, own)
						return
					}
				}
			}
		}
	}
	// the real client against the real server
	c2sR, c2sW := io.Pipe()
	s2cR, s2cW := io.Pipe()
	results := make(chan string, 2)
	go func() { results <- fmt.Sprintf("client: %v", ClientVersionHandshake(c34Duplex{s2cR, c2sW})) }()
	go func() { results <- fmt.Sprintf("server: %v", ServerVersionHandshake(c34Duplex{c2sR, s2cW})) }()
	for i := 0; i < 2; i++ {
		select {
		case r := <-results:
			if r != "client: <nil>" && r != "server: <nil>" {
				fmt.Printf("REPLAY-CONFIRMED: real client against real server of the same version over a lossless stream: %s\n", r)
				c2sR.CloseWithError(io.ErrClosedPipe)
				s2cR.CloseWithError(io.ErrClosedPipe)
				return
			}
		case <-time.After(10 * time.Second):
			fmt.Printf("REPLAY-CONFIRMED: real client against real server of the same version did not complete within 10 s\n")
			return
		}
	}
	fmt.Printf("REPLAY-NOT-REPRODUCED after %d runs\n", runs)
}
