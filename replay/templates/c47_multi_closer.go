// pkgdir: pkg/stream
package stream

// Replay for C47, multi-closer: "closes everything while reporting the first
// error". Search family: 0..5 closers, every subset of them failing with
// distinct errors. Oracle: every closer is closed exactly once and the result
// is the error of the first failing closer in argument order (nil if none).

import (
	"fmt"
	"io"
	"testing"
)

const replayModelC47Multi = `{{MODEL_JSON}}`

type c47Err int

func (e c47Err) Error() string { return fmt.Sprintf("injected failure of #%d", int(e)) }

type c47Part struct {
	index int
	fail  bool
	log   *[]int
}

func (p *c47Part) Close() error {
	*p.log = append(*p.log, p.index)
	if p.fail {
		return c47Err(p.index)
	}
	return nil
}

func (p *c47Part) Flush() error { return p.Close() }

func c47Parts(n, mask int, log *[]int) (parts []*c47Part, first error, failing []int) {
	for i := 0; i < n; i++ {
		p := &c47Part{index: i, fail: mask&(1<<i) != 0, log: log}
		parts = append(parts, p)
		if p.fail {
			failing = append(failing, i)
			if first == nil {
				first = c47Err(i)
			}
		}
	}
	return
}

func TestReplayMultiCloser(t *testing.T) {
	runs := 0
	for n := 0; n <= 5; n++ {
		for mask := 0; mask < 1<<n; mask++ {
			runs++
			var log []int
			parts, first, failing := c47Parts(n, mask, &log)
			args := make([]io.Closer, n)
			for i, p := range parts {
				args[i] = p
			}
			err := NewMultiCloser(args...).Close()
			desc := fmt.Sprintf("%d closers, failing: %v", n, failing)
			count := make([]int, n)
			for _, i := range log {
				count[i]++
			}
			for i, c := range count {
				if c != 1 {
					fmt.Printf("REPLAY-CONFIRMED: %s: closer #%d was closed %d times (close order %v, result %v)\n", desc, i, c, log, err)
					return
				}
			}
			if err != first {
				fmt.Printf("REPLAY-CONFIRMED: %s: Close returned %v, the first error is %v\n", desc, err, first)
				return
			}
		}
	}
	fmt.Printf("REPLAY-NOT-REPRODUCED after %d runs\n", runs)
}
