// pkgdir: pkg/encoding
package encoding

// Replay for C22 (length-prefixed framing): "Any sequence of protocol messages
// written through the length-prefixed encoder ... is decoded by the peer as the
// same sequence, however the bytes are fragmented in transit. After a flush,
// everything written so far can be decoded without further data, and declared
// message sizes above the limit are rejected." Family searched on the real
// encoder and decoder (no compression layer): sequences of one to three
// messages (wrapperspb.BytesValue) with payload lengths 0, 1, 2, 125..128,
// 300, 16383..16385, 40000 and (once) 1.2 MB, i.e. around the varint, initial
// buffer and persistent-buffer boundaries, written through one encoder and
// read through one decoder from a reader delivering fragments of 1, 3, 1000 or
// unlimited bytes; writers that fail; frames declaring limit+1 and limit+2
// bytes. Oracles: every successful Encode performs a single complete write of
// uvarint(len(wire)) ++ wire (written independently with proto.Marshal and an
// own varint encoder) and retains nothing; a failed write makes Encode fail;
// the decoded sequence equals the written one, consumes exactly the written
// bytes and then reports the end of the stream; a declared size above the
// limit is rejected on the declared size (no payload read, no buffer of that
// size allocated).

import (
	"bytes"
	"errors"
	"fmt"
	"io"
	"runtime"
	"testing"

	"google.golang.org/protobuf/proto"
	"google.golang.org/protobuf/types/known/wrapperspb"
)

const replayModelC22 = `{{MODEL_JSON}}`

func c22Uvarint(v uint64) []byte {
	var out []byte
	for v >= 0x80 {
		out = append(out, byte(v)|0x80)
		v >>= 7
	}
	return append(out, byte(v))
}

type c22Writer struct {
	writes [][]byte
	fail   bool
}

func (w *c22Writer) Write(p []byte) (int, error) {
	if w.fail {
		return 0, errors.New("injected write failure")
	}
	w.writes = append(w.writes, append([]byte(nil), p...))
	return len(p), nil
}

// c22Reader is a fragmenting stream.DualModeReader that counts consumption.
type c22Reader struct {
	data     []byte
	fragment int
	consumed int
}

func (r *c22Reader) Read(p []byte) (int, error) {
	if len(r.data) == 0 {
		return 0, io.EOF
	}
	n := len(p)
	if r.fragment > 0 && n > r.fragment {
		n = r.fragment
	}
	if n > len(r.data) {
		n = len(r.data)
	}
	copy(p, r.data[:n])
	r.data = r.data[n:]
	r.consumed += n
	return n, nil
}

func (r *c22Reader) ReadByte() (byte, error) {
	if len(r.data) == 0 {
		return 0, io.EOF
	}
	b := r.data[0]
	r.data = r.data[1:]
	r.consumed++
	return b, nil
}

func c22Payload(n int, seed byte) []byte {
	p := make([]byte, n)
	for i := range p {
		p[i] = seed + byte(i*7)
	}
	return p
}

func c22Check(lengths []int, fragments []int) string {
	desc := fmt.Sprintf("messages with payload lengths %v", lengths)
	w := &c22Writer{}
	enc := NewProtobufEncoder(w)
	var want []byte
	var messages []*wrapperspb.BytesValue
	for i, l := range lengths {
		m := &wrapperspb.BytesValue{Value: c22Payload(l, byte(i+1))}
		messages = append(messages, m)
		wire, err := proto.Marshal(m)
		if err != nil {
			return ""
		}
		frame := append(c22Uvarint(uint64(len(wire))), wire...)
		want = append(want, frame...)
		if err := enc.Encode(m); err != nil {
			return fmt.Sprintf("%s: Encode #%d failed on a healthy writer: %v", desc, i+1, err)
		}
		if len(w.writes) != i+1 || !bytes.Equal(w.writes[i], frame) {
			got := []byte(nil)
			if len(w.writes) > i {
				got = w.writes[i]
			}
			return fmt.Sprintf("%s: Encode #%d performed %d writes in total; its write has %d bytes starting % x, the frame uvarint(%d) ++ wire has %d bytes starting % x",
				desc, i+1, len(w.writes), len(got), got[:c22Min(len(got), 8)], len(wire), len(frame), frame[:c22Min(len(frame), 8)])
		}
	}
	for _, fragment := range fragments {
		r := &c22Reader{data: append([]byte(nil), want...), fragment: fragment}
		dec := NewProtobufDecoder(r)
		for i, m := range messages {
			got := &wrapperspb.BytesValue{}
			if err := dec.Decode(got); err != nil {
				return fmt.Sprintf("%s, read in fragments of %d: Decode #%d failed: %v", desc, fragment, i+1, err)
			}
			if !bytes.Equal(got.Value, m.Value) {
				return fmt.Sprintf("%s, read in fragments of %d: Decode #%d returned a payload of %d bytes that differs from the %d bytes written", desc, fragment, i+1, len(got.Value), len(m.Value))
			}
		}
		if r.consumed != len(want) {
			return fmt.Sprintf("%s, read in fragments of %d: %d of %d written bytes consumed after decoding every message", desc, fragment, r.consumed, len(want))
		}
		if err := dec.Decode(&wrapperspb.BytesValue{}); err == nil {
			return fmt.Sprintf("%s, read in fragments of %d: a further Decode on the exhausted stream succeeded", desc, fragment)
		}
	}
	return ""
}

func c22Min(a, b int) int {
	if a < b {
		return a
	}
	return b
}

func TestReplayProtobufFraming(t *testing.T) {
	sizes := []int{0, 1, 2, 125, 126, 127, 128, 300, 16383, 16384, 16385, 40000}
	fragments := []int{1, 3, 1000, 0}
	runs := 0
	for _, a := range sizes {
		runs++
		if bad := c22Check([]int{a}, fragments); bad != "" {
			fmt.Printf("REPLAY-CONFIRMED: %s\n", bad)
			return
		}
	}
	small := []int{0, 1, 127, 128, 300, 40000}
	for _, a := range small {
		for _, b := range small {
			runs++
			if bad := c22Check([]int{a, b}, []int{1, 0}); bad != "" {
				fmt.Printf("REPLAY-CONFIRMED: %s\n", bad)
				return
			}
			for _, c := range []int{0, 2, 16384} {
				runs++
				if bad := c22Check([]int{a, b, c}, []int{3}); bad != "" {
					fmt.Printf("REPLAY-CONFIRMED: %s\n", bad)
					return
				}
			}
		}
	}
	if bad := c22Check([]int{5, 1200000, 7, 40000}, []int{4096, 0}); bad != "" {
		fmt.Printf("REPLAY-CONFIRMED: %s\n", bad)
		return
	}
	// failing writer
	for _, l := range []int{0, 5, 40000} {
		w := &c22Writer{fail: true}
		if err := NewProtobufEncoder(w).Encode(&wrapperspb.BytesValue{Value: c22Payload(l, 1)}); err == nil {
			fmt.Printf("REPLAY-CONFIRMED: Encode of a message with a %d-byte payload returned nil although the writer failed and accepted nothing: the message is lost silently\n", l)
			return
		}
		if err := EncodeProtobuf(w, &wrapperspb.BytesValue{Value: c22Payload(l, 1)}); err == nil {
			fmt.Printf("REPLAY-CONFIRMED: EncodeProtobuf of a message with a %d-byte payload returned nil although the writer failed and accepted nothing\n", l)
			return
		}
	}
	// declared sizes above the limit
	for _, over := range []uint64{1, 2} {
		declared := uint64(protobufDecoderMaximumAllowedMessageSize) + over
		prefix := c22Uvarint(declared)
		r := &c22Reader{data: append(append([]byte(nil), prefix...), c22Payload(64, 9)...)}
		dec := NewProtobufDecoder(r)
		var before, after runtime.MemStats
		runtime.ReadMemStats(&before)
		err := dec.Decode(&wrapperspb.BytesValue{})
		runtime.ReadMemStats(&after)
		allocated := after.TotalAlloc - before.TotalAlloc
		if err == nil {
			fmt.Printf("REPLAY-CONFIRMED: a frame declaring %d bytes (limit %d) was accepted\n", declared, uint64(protobufDecoderMaximumAllowedMessageSize))
			return
		}
		if r.consumed != len(prefix) || allocated >= declared/2 {
			fmt.Printf("REPLAY-CONFIRMED: a frame declaring %d bytes (limit %d) was not rejected on its declared size: Decode consumed %d bytes beyond the %d-byte length prefix and allocated %d bytes before failing with %q\n",
				declared, uint64(protobufDecoderMaximumAllowedMessageSize), r.consumed-len(prefix), len(prefix), allocated, err)
			return
		}
	}
	fmt.Printf("REPLAY-NOT-REPRODUCED after %d message sequences, failing writers and over-limit frames\n", runs)
}
