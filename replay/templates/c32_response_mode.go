// pkgdir: pkg/prompting
package prompting

// Replay for C32 (response mode): "Responses to prompts are read without echo
// unless the prompt is one of the known yes/no host-key confirmations".
// Family: the four OpenSSH confirmation endings behind several prefixes (must
// be echoed) and near-misses of each of them - trailing blank dropped or
// doubled, a character appended, the ending moved to the middle or the front
// of a password prompt, one character deleted at every position, changed case
// - plus ordinary secret prompts (must be read without any echo, not even a
// mask). determineResponseMode is evaluated on every prompt; PromptCommandLine
// is run on a few of them with standard input and output redirected to pipes
// and the bytes written to the terminal are inspected.

import (
	"fmt"
	"io"
	"os"
	"strings"
	"testing"
	"time"
)

const replayModelC32Mode = `{{MODEL_JSON}}`

func c32Prompts() (echoed, secret []string) {
	endings := []string{"(yes/no)? ", "(yes/no): ", "(yes/no/[fingerprint])? ", "Please type 'yes', 'no' or the fingerprint: "}
	isEnding := func(s string) bool {
		for _, e := range endings {
			if strings.HasSuffix(s, e) {
				return true
			}
		}
		return false
	}
	prefixes := []string{"", "Are you sure you want to continue connecting ", "The authenticity of host 'h (1.2.3.4)' can't be established.\nAre you sure you want to continue connecting "}
	add := func(s string) {
		if !isEnding(s) {
			secret = append(secret, s)
		}
	}
	for _, e := range endings {
		for _, p := range prefixes {
			echoed = append(echoed, p+e)
			add(p + strings.TrimSuffix(e, " "))
			add(p + e + " ")
			add(p + e + "x")
			add(p + e + "\n")
			add(p + e + "Password: ")
			add(e + p + "user@host's password: ")
			add(p + strings.ToUpper(e))
			for i := 0; i < len(e); i++ {
				add(p + e[:i] + e[i+1:])
			}
		}
	}
	for _, s := range []string{"", " ", "? ", ": ", "Password: ", "user@host's password: ", "Enter passphrase for key '/home/u/.ssh/id_rsa': ",
		"Verification code: ", "yes/no? ", "(yes/no) ", "Continue? ", "Really delete (y/n)? "} {
		add(s)
	}
	return
}

// c32RunCommandLine runs PromptCommandLine with the response typed on a pipe
// and returns what was written to the terminal and the response read.
func c32RunCommandLine(prompt, typed string) (shown, response string, err error) {
	inR, inW, e1 := os.Pipe()
	outR, outW, e2 := os.Pipe()
	if e1 != nil || e2 != nil {
		return "", "", fmt.Errorf("pipe: %v %v", e1, e2)
	}
	oldIn, oldOut := os.Stdin, os.Stdout
	os.Stdin, os.Stdout = inR, outW
	go func() { io.WriteString(inW, typed+"\n"); inW.Close() }()
	type result struct {
		response string
		err      error
	}
	done := make(chan result, 1)
	go func() {
		r, e := PromptCommandLine(prompt)
		done <- result{r, e}
	}()
	var res result
	select {
	case res = <-done:
	case <-time.After(10 * time.Second):
		res.err = fmt.Errorf("PromptCommandLine did not return")
	}
	os.Stdin, os.Stdout = oldIn, oldOut
	outW.Close()
	data, _ := io.ReadAll(outR)
	outR.Close()
	inR.Close()
	return string(data), res.response, res.err
}

func TestReplayResponseMode(t *testing.T) {
	echoed, secret := c32Prompts()
	for _, p := range echoed {
		if m := determineResponseMode(p); m != ResponseModeEcho {
			fmt.Printf("REPLAY-CONFIRMED: determineResponseMode(%q) = %d; this is a known yes/no host-key confirmation and its response is echoed (mode %d)\n", p, m, ResponseModeEcho)
			return
		}
	}
	for _, p := range secret {
		if m := determineResponseMode(p); m != ResponseModeSecret {
			fmt.Printf("REPLAY-CONFIRMED: determineResponseMode(%q) = %d; the prompt is not one of the known yes/no host-key confirmations and its response must be read without echo (mode %d)\n", p, m, ResponseModeSecret)
			return
		}
	}
	// the command line prompter must use that mode
	const typed = "s3cr3t-Response"
	for _, p := range []string{"Password: ", "Enter passphrase for key '/k': ", "(yes/no)? Password: ", "Continue? "} {
		shown, response, err := c32RunCommandLine(p, typed)
		if err != nil {
			fmt.Printf("REPLAY-NOT-REPRODUCED (command line prompting could not be exercised: %v)\n", err)
			return
		}
		rest := strings.TrimPrefix(shown, p)
		if strings.Contains(rest, typed) || strings.Contains(rest, "*") || response != typed {
			fmt.Printf("REPLAY-CONFIRMED: PromptCommandLine(%q) with %q typed wrote %q to the terminal after the prompt and returned %q; a secret response must not be echoed or masked\n", p, typed, rest, response)
			return
		}
	}
	for _, p := range []string{"Are you sure you want to continue connecting (yes/no)? "} {
		shown, response, err := c32RunCommandLine(p, "yes")
		if err != nil {
			fmt.Printf("REPLAY-NOT-REPRODUCED (command line prompting could not be exercised: %v)\n", err)
			return
		}
		if rest := strings.TrimPrefix(shown, p); !strings.Contains(rest, "yes") || response != "yes" {
			fmt.Printf("REPLAY-CONFIRMED: PromptCommandLine(%q) with \"yes\" typed wrote %q after the prompt and returned %q; a host-key confirmation is echoed\n", p, rest, response)
			return
		}
	}
	fmt.Printf("REPLAY-NOT-REPRODUCED after %d echoed and %d secret prompts\n", len(echoed), len(secret))
}
