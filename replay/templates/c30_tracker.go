// pkgdir: pkg/state
package state

// Replay for C30 (state-change long-polls): "A caller waiting for state changes
// since a given index returns promptly if the state has already changed and
// otherwise returns after the next change, termination or cancellation.
// Returned indices never move backwards, and every state change made through
// the tracking lock advances the index." The obligations are about the
// index/registration discipline; the replay drives a real Tracker and
// TrackingLock with real goroutines through the schedules in which a broken
// discipline shows (waits are bounded: "must return" = within 10 s, "must
// still be waiting" = not within 150 ms):
//  a. read the index (previous index 0), change, wait with the stale index;
//  b. wait with the current index, then change through Lock/Unlock;
//  c. wait with the current index, then Lock/UnlockWithoutNotify (no change);
//  d. wait with the current index, then cancel;
//  e. wait with the current index, then Terminate; waits after termination;
//  f. 50 changes: indices read after each never move backwards and advance;
//  g. the same schedules with the index placed just below its 64-bit limit
//     (the documented wrap: the index must remain usable for waiting).

import (
	"context"
	"fmt"
	"testing"
	"time"
)

const replayModelC30 = `{{MODEL_JSON}}`

type c30Result struct {
	index uint64
	err   error
}

func c30Wait(t *Tracker, ctx context.Context, previous uint64) chan c30Result {
	ch := make(chan c30Result, 1)
	go func() {
		i, err := t.WaitForChange(ctx, previous)
		ch <- c30Result{i, err}
	}()
	return ch
}

const c30Must = 10 * time.Second
const c30Still = 150 * time.Millisecond

func c30Get(ch chan c30Result, d time.Duration) (c30Result, bool) {
	select {
	case r := <-ch:
		return r, true
	case <-time.After(d):
		return c30Result{}, false
	}
}

// c30Now reads the current index (previous index 0 returns immediately).
func c30Now(t *Tracker) (uint64, string) {
	r, ok := c30Get(c30Wait(t, context.Background(), 0), c30Must)
	if !ok {
		return 0, "WaitForChange(previous index 0) did not return"
	}
	if r.err != nil {
		return 0, fmt.Sprintf("WaitForChange(previous index 0) on a live tracker failed: %v", r.err)
	}
	return r.index, ""
}

func c30Schedules(start uint64) string {
	where := ""
	fresh := func() *Tracker {
		t := NewTracker()
		if start != 0 {
			t.change.L.Lock()
			t.index = start
			t.change.L.Unlock()
			where = fmt.Sprintf("tracker whose index was placed at %d: ", start)
		}
		return t
	}
	change := func(t *Tracker, l *TrackingLock) { l.Lock(); l.Unlock() }

	// a. stale index
	{
		t := fresh()
		l := NewTrackingLock(t)
		i0, bad := c30Now(t)
		if bad != "" {
			t.Terminate()
			return where + bad
		}
		change(t, l)
		r, ok := c30Get(c30Wait(t, context.Background(), i0), c30Must)
		t.Terminate()
		if !ok {
			return where + fmt.Sprintf("index read as %d, one change through the tracking lock, WaitForChange(%d) did not return although the state had already changed", i0, i0)
		}
		if r.err != nil || r.index == i0 || (start == 0 && r.index < i0) {
			return where + fmt.Sprintf("index read as %d, one change through the tracking lock, WaitForChange(%d) returned (%d, %v); want a later index and no error", i0, i0, r.index, r.err)
		}
	}
	// b. c. current index, change / no change
	{
		t := fresh()
		l := NewTrackingLock(t)
		change(t, l)
		i0, bad := c30Now(t)
		if bad != "" {
			t.Terminate()
			return where + bad
		}
		w := c30Wait(t, context.Background(), i0)
		if r, ok := c30Get(w, c30Still); ok {
			t.Terminate()
			return where + fmt.Sprintf("WaitForChange(%d) with the current index %d returned (%d, %v) although nothing changed", i0, i0, r.index, r.err)
		}
		l.Lock()
		l.UnlockWithoutNotify()
		if r, ok := c30Get(w, c30Still); ok {
			t.Terminate()
			return where + fmt.Sprintf("a waiter at the current index %d returned (%d, %v) after Lock/UnlockWithoutNotify, which is not a state change", i0, r.index, r.err)
		}
		change(t, l)
		r, ok := c30Get(w, c30Must)
		if !ok {
			t.Terminate()
			return where + fmt.Sprintf("a waiter at the current index %d did not return after a state change made through TrackingLock Lock/Unlock", i0)
		}
		i1, bad := c30Now(t)
		t.Terminate()
		if bad != "" {
			return where + bad
		}
		if r.err != nil || r.index != i1 || i1 == i0 || (start == 0 && i1 < i0) {
			return where + fmt.Sprintf("a waiter at index %d returned (%d, %v) after one change; the index read afterwards is %d (want that index, different from %d, and no error)", i0, r.index, r.err, i1, i0)
		}
	}
	// d. cancellation
	{
		t := fresh()
		i0, _ := c30Now(t)
		ctx, cancel := context.WithCancel(context.Background())
		w := c30Wait(t, ctx, i0)
		if r, ok := c30Get(w, c30Still); ok {
			cancel()
			t.Terminate()
			return where + fmt.Sprintf("WaitForChange(%d) with the current index returned (%d, %v) although nothing changed", i0, r.index, r.err)
		}
		cancel()
		r, ok := c30Get(w, c30Must)
		t.Terminate()
		if !ok || r.err != context.Canceled {
			return where + fmt.Sprintf("a waiter whose context was cancelled: returned=%v (%d, %v); want context.Canceled", ok, r.index, r.err)
		}
	}
	// e. termination
	{
		t := fresh()
		i0, _ := c30Now(t)
		w := c30Wait(t, context.Background(), i0)
		c30Get(w, c30Still/3)
		done := make(chan struct{})
		go func() { t.Terminate(); close(done) }()
		r, ok := c30Get(w, c30Must)
		if !ok || r.err != ErrTrackingTerminated {
			return where + fmt.Sprintf("a waiter at the current index when the tracker is terminated: returned=%v (%d, %v); want ErrTrackingTerminated", ok, r.index, r.err)
		}
		select {
		case <-done:
		case <-time.After(c30Must):
			return where + "Terminate did not return"
		}
		for _, previous := range []uint64{0, i0, i0 + 1} {
			r, ok := c30Get(c30Wait(t, context.Background(), previous), c30Must)
			if !ok || r.err != ErrTrackingTerminated {
				return where + fmt.Sprintf("WaitForChange(%d) on a terminated tracker: returned=%v (%d, %v); want ErrTrackingTerminated", previous, ok, r.index, r.err)
			}
		}
	}
	// f. monotone
	{
		t := fresh()
		l := NewTrackingLock(t)
		last, _ := c30Now(t)
		for i := 0; i < 50; i++ {
			if i%2 == 0 {
				change(t, l)
			} else {
				t.NotifyOfChange()
			}
			now, bad := c30Now(t)
			if bad != "" {
				t.Terminate()
				return where + bad
			}
			if now == last || (start == 0 && now < last) {
				t.Terminate()
				return where + fmt.Sprintf("change #%d: the index went from %d to %d (every change must advance it, and it never moves backwards)", i+1, last, now)
			}
			if now == 0 {
				t.Terminate()
				return where + fmt.Sprintf("change #%d took the index from %d to 0, the value that means \"do not wait\": a caller polling with the returned index would never wait again", i+1, last)
			}
			last = now
		}
		t.Terminate()
	}
	return ""
}

func TestReplayTracker(t *testing.T) {
	for _, start := range []uint64{0, ^uint64(0) - 2, ^uint64(0)} {
		if bad := c30Schedules(start); bad != "" {
			fmt.Printf("REPLAY-CONFIRMED: %s\n", bad)
			return
		}
	}
	fmt.Printf("REPLAY-NOT-REPRODUCED (stale index, current index with change / silent unlock / cancellation / termination, 50 changes, index near its 64-bit limit)\n")
}
