// pkgdir: pkg/stream
package stream

// Replay for the serialising writer the logger writes through (C44: one line
// per record requires that records are not interleaved, duplicated or lost).
// Schedules run on the real NewConcurrentWriter: 8 goroutines x 40 writes
// against a sink that dwells in Write and counts overlapping entries; a sink
// that fails while accepting the bytes (one downstream call per Write, result
// passed through); two writes in sequence from one goroutine (the lock is
// released). Oracle: downstream Write calls never overlap, each Write makes
// exactly one downstream call with exactly its bytes and returns its result,
// and every Write returns.

import (
	"errors"
	"fmt"
	"sync"
	"sync/atomic"
	"testing"
	"time"
)

const replayModelC44Serial = `{{MODEL_JSON}}`

type c44Sink struct {
	inFlight int32
	overlaps int32
	calls    int32
	bytes    int64
	dwell    time.Duration
	fail     bool
}

var errC44Sink = errors.New("injected sink failure")

func (s *c44Sink) Write(p []byte) (int, error) {
	if atomic.AddInt32(&s.inFlight, 1) > 1 {
		atomic.AddInt32(&s.overlaps, 1)
	}
	atomic.AddInt32(&s.calls, 1)
	atomic.AddInt64(&s.bytes, int64(len(p)))
	if s.dwell > 0 {
		time.Sleep(s.dwell)
	}
	atomic.AddInt32(&s.inFlight, -1)
	if s.fail {
		return len(p), errC44Sink
	}
	return len(p), nil
}

func TestReplayConcurrentWriter(t *testing.T) {
	// sequential use
	{
		sink := &c44Sink{}
		w := NewConcurrentWriter(sink)
		done := make(chan string, 1)
		go func() {
			for i := 1; i <= 3; i++ {
				n, err := w.Write([]byte("record\n"))
				if n != 7 || err != nil || int(atomic.LoadInt32(&sink.calls)) != i {
					done <- fmt.Sprintf("Write #%d of a 7-byte record returned (%d, %v) after %d downstream calls", i, n, err, atomic.LoadInt32(&sink.calls))
					return
				}
			}
			done <- ""
		}()
		select {
		case bad := <-done:
			if bad != "" {
				fmt.Printf("REPLAY-CONFIRMED: sequential writes through the serialising writer: %s\n", bad)
				return
			}
		case <-time.After(5 * time.Second):
			fmt.Printf("REPLAY-CONFIRMED: three sequential writes through the serialising writer: only %d reached the sink within 5 s (the writer blocks after a completed write)\n", atomic.LoadInt32(&sink.calls))
			return
		}
	}
	// failing sink
	{
		sink := &c44Sink{fail: true}
		w := NewConcurrentWriter(sink)
		n, err := w.Write([]byte("record\n"))
		if c := atomic.LoadInt32(&sink.calls); c != 1 || n != 7 || err != errC44Sink {
			fmt.Printf("REPLAY-CONFIRMED: one Write of a 7-byte record to a sink that takes the bytes and reports an error made %d downstream calls (%d bytes) and returned (%d, %v); want one call and the sink's result\n", c, atomic.LoadInt64(&sink.bytes), n, err)
			return
		}
	}
	// contention
	sink := &c44Sink{dwell: 200 * time.Microsecond}
	w := NewConcurrentWriter(sink)
	var wg sync.WaitGroup
	for g := 0; g < 8; g++ {
		wg.Add(1)
		go func() {
			defer wg.Done()
			for i := 0; i < 40; i++ {
				w.Write([]byte("record\n"))
			}
		}()
	}
	finished := make(chan struct{})
	go func() { wg.Wait(); close(finished) }()
	select {
	case <-finished:
	case <-time.After(20 * time.Second):
		fmt.Printf("REPLAY-CONFIRMED: 8 goroutines x 40 writes through one serialising writer did not finish within 20 s (%d downstream calls so far)\n", atomic.LoadInt32(&sink.calls))
		return
	}
	if o, c := atomic.LoadInt32(&sink.overlaps), atomic.LoadInt32(&sink.calls); o > 0 || c != 320 {
		fmt.Printf("REPLAY-CONFIRMED: 8 goroutines x 40 writes through one serialising writer: %d downstream calls, %d of them entered the sink while another call was still inside it\n", c, o)
		return
	}
	fmt.Printf("REPLAY-NOT-REPRODUCED (sequential, failing-sink and 8x40 contended writes)\n")
}
