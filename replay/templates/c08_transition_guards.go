// pkgdir: pkg/synchronization/core
package core

// Replay for the transition properties C08 and C09 and for the transition
// clauses of C01 (just-in-time check before removal) and C03 (directories with
// unknown content). The contracts name the state of the disk by uninterpreted
// functions, so a solver model does not describe a directory tree; the replay
// therefore runs the real core.Transition on small temporary roots, one
// scenario per fresh root, and checks oracles taken from the property
// statements:
//
//   C08  a file whose permissions, modification time, size or identity differs
//        from what the scan cache recorded, a symbolic link whose target
//        differs, a file that appeared at a path the plan believes empty, and
//        content inside a directory that the plan does not know about are still
//        on disk, untouched, after the transition, and a problem is reported.
//   C01  the same for a file whose recorded digest differs from the digest the
//        plan expects to remove or replace.
//   C09  there is exactly one result per transition, and every reported entry
//        equals what is on disk at that path afterwards (read back with
//        os.Lstat/ReadFile/Readlink, not with the package's scanner). This is
//        checked in the scenarios where the disk was not modified behind the
//        plan's back in a way that changes entries (failed checks through a
//        differing cache, metadata-only modifications, cancellation, partial
//        directory removal, hard links, plain successes); names on disk that
//        the plan does not know are ignored where the scenario adds them.
//
// Input family: root {f (file), l (link), d {x, y (files), k (link)}}; the
// "scan" is the tree written down here plus a cache built from
// Directory.ReadContentMetadata. Between scan and transition exactly one
// thing changes: on disk (chmod, mtime, size with restored mtime, replacement
// by an identical new file, link retargeting, a new child, a new file at a
// free name, a vanished child) or in the cache (mode, time, size, file id,
// file id := device id, digest := the plan's new digest). Plans: delete f,
// swap f, replace f by a directory, delete l, replace l by a file, delete d,
// create a file / a directory tree; each also under a cancelled context, and
// the creating plans with a fault: the configured owner cannot be set (EPERM;
// as root the effective user id is dropped for the call), so that creation
// stops half way. Model
// values naming a field (dmode, dsize, dfid, dmtime, dlink, Digest) select
// the scenarios that are run first.

import (
	"bytes"
	"context"
	"crypto/sha1"
	"encoding/hex"
	"encoding/json"
	"fmt"
	"os"
	"path/filepath"
	"sort"
	"strings"
	"syscall"
	"testing"
	"time"

	"google.golang.org/protobuf/types/known/timestamppb"

	"github.com/mutagen-io/mutagen/pkg/filesystem"
)

const rtModel = `{{MODEL_JSON}}`

func rtDigest(content string) []byte {
	sum := sha1.Sum([]byte(content))
	return sum[:]
}

func rtFile(content string) *Entry {
	return &Entry{Kind: EntryKind_File, Digest: rtDigest(content)}
}

func rtLink(target string) *Entry {
	return &Entry{Kind: EntryKind_SymbolicLink, Target: target}
}

func rtDir(contents map[string]*Entry) *Entry {
	if len(contents) == 0 {
		contents = nil
	}
	return &Entry{Kind: EntryKind_Directory, Contents: contents}
}

// rtProvider serves staged files by digest.
type rtProvider struct {
	dir      string
	contents map[string]string
}

func (p *rtProvider) Provide(path string, digest []byte) (string, error) {
	name := filepath.Join(p.dir, hex.EncodeToString(digest)+"-"+strings.ReplaceAll(path, "/", "_"))
	content, ok := p.contents[hex.EncodeToString(digest)]
	if !ok {
		return name + "-missing", nil
	}
	if err := os.WriteFile(name, []byte(content), 0600); err != nil {
		return "", err
	}
	return name, nil
}

type rtFixture struct {
	dir, root string
	cache     *Cache
	provider  *rtProvider
	device    map[string]uint64
}

func (fx *rtFixture) abs(p string) string { return filepath.Join(fx.root, filepath.FromSlash(p)) }

func (fx *rtFixture) metadata(p string) *filesystem.Metadata {
	parent, _, err := filesystem.OpenDirectory(filepath.Dir(fx.abs(p)), false)
	if err != nil {
		return nil
	}
	defer parent.Close()
	metadata, err := parent.ReadContentMetadata(filepath.Base(fx.abs(p)))
	if err != nil {
		return nil
	}
	return metadata
}

// record stores in the cache what a scan of the file at p would record.
func (fx *rtFixture) record(p, content string) {
	m := fx.metadata(p)
	if m == nil {
		panic("unable to read metadata of " + p)
	}
	fx.cache.Entries[p] = &CacheEntry{Mode: uint32(m.Mode), ModificationTime: timestamppb.New(m.ModificationTime), Size: m.Size, FileID: m.FileID, Digest: rtDigest(content)}
	fx.device[p] = m.DeviceID
}

func rtNewFixture(t *testing.T, hardLink bool) *rtFixture {
	dir, err := os.MkdirTemp("", "c08replay")
	if err != nil {
		t.Fatal(err)
	}
	fx := &rtFixture{dir: dir, root: filepath.Join(dir, "root"), cache: &Cache{Entries: map[string]*CacheEntry{}}, device: map[string]uint64{}}
	fx.provider = &rtProvider{dir: filepath.Join(dir, "staging"), contents: map[string]string{}}
	for _, c := range []string{"new-content", "a-content"} {
		fx.provider.contents[hex.EncodeToString(rtDigest(c))] = c
	}
	must := func(err error) {
		if err != nil {
			os.RemoveAll(dir)
			t.Fatal(err)
		}
	}
	must(os.Mkdir(fx.provider.dir, 0700))
	must(os.Mkdir(fx.root, 0700))
	must(os.Mkdir(fx.abs("d"), 0700))
	must(os.WriteFile(fx.abs("f"), []byte("old-content"), 0600))
	must(os.WriteFile(fx.abs("d/x"), []byte("x-content"), 0600))
	must(os.WriteFile(fx.abs("d/y"), []byte("y-content"), 0600))
	must(os.Symlink("target-a", fx.abs("l")))
	must(os.Symlink("t", fx.abs("d/k")))
	past := time.Now().Add(-time.Hour).Truncate(time.Second)
	for _, p := range []string{"f", "d/x", "d/y"} {
		must(os.Chtimes(fx.abs(p), past, past))
	}
	if hardLink {
		must(os.Link(fx.abs("d/x"), fx.abs("x")))
	}
	fx.record("f", "old-content")
	fx.record("d/x", "x-content")
	fx.record("d/y", "y-content")
	if hardLink {
		fx.record("x", "x-content")
	}
	return fx
}

func rtScannedD() *Entry {
	return rtDir(map[string]*Entry{"x": rtFile("x-content"), "y": rtFile("y-content"), "k": rtLink("t")})
}

// rtDisk reads back what is on disk at an absolute path.
func rtDisk(path string) *Entry {
	info, err := os.Lstat(path)
	if err != nil {
		return nil
	}
	switch {
	case info.Mode()&os.ModeSymlink != 0:
		target, _ := os.Readlink(path)
		return rtLink(target)
	case info.IsDir():
		result := &Entry{Kind: EntryKind_Directory}
		entries, _ := os.ReadDir(path)
		for _, e := range entries {
			if result.Contents == nil {
				result.Contents = map[string]*Entry{}
			}
			result.Contents[e.Name()] = rtDisk(filepath.Join(path, e.Name()))
		}
		return result
	case info.Mode().IsRegular():
		data, _ := os.ReadFile(path)
		return &Entry{Kind: EntryKind_File, Digest: rtDigest(string(data)), Executable: info.Mode()&0100 != 0}
	}
	return &Entry{Kind: EntryKind_Untracked}
}

func rtShow(e *Entry) string {
	if e == nil {
		return "nothing"
	}
	switch e.Kind {
	case EntryKind_File:
		return "file#" + hex.EncodeToString(e.Digest)[:6]
	case EntryKind_SymbolicLink:
		return "link->" + e.Target
	case EntryKind_Directory:
		names := make([]string, 0, len(e.Contents))
		for n := range e.Contents {
			names = append(names, n)
		}
		sort.Strings(names)
		parts := make([]string, 0, len(names))
		for _, n := range names {
			parts = append(parts, n+":"+rtShow(e.Contents[n]))
		}
		return "dir{" + strings.Join(parts, " ") + "}"
	}
	return fmt.Sprintf("kind%d", e.Kind)
}

// rtSame compares a reported entry with the disk; names that only the disk has
// and that are in unknown are ignored.
func rtSame(reported, disk *Entry, unknown map[string]bool, path string) bool {
	if reported == nil || disk == nil {
		return reported == nil && disk == nil
	}
	if reported.Kind != disk.Kind || reported.Executable != disk.Executable || !bytes.Equal(reported.Digest, disk.Digest) || reported.Target != disk.Target {
		return false
	}
	for name, child := range reported.Contents {
		if !rtSame(child, disk.Contents[name], unknown, path+"/"+name) {
			return false
		}
	}
	for name := range disk.Contents {
		if _, ok := reported.Contents[name]; !ok && !unknown[strings.TrimPrefix(path+"/"+name, "/")] {
			return false
		}
	}
	return true
}

// rtState describes a path on disk including identity and times.
func (fx *rtFixture) state(p string) string {
	info, err := os.Lstat(fx.abs(p))
	if err != nil {
		return "absent"
	}
	m := fx.metadata(p)
	id := uint64(0)
	if m != nil {
		id = m.FileID
	}
	switch {
	case info.Mode()&os.ModeSymlink != 0:
		target, _ := os.Readlink(fx.abs(p))
		return fmt.Sprintf("link->%s id=%d", target, id)
	case info.IsDir():
		return "directory"
	default:
		data, _ := os.ReadFile(fx.abs(p))
		return fmt.Sprintf("file %q mode=%v mtime=%d id=%d", data, info.Mode(), info.ModTime().UnixNano(), id)
	}
}

type rtScenario struct {
	property  string   // the property whose oracle "protected" belongs to
	field     string   // what differs between scan and disk
	what      string   // description of the difference
	hardLink  bool     // fixture with the hard link x <-> d/x
	prepare   func(fx *rtFixture)
	plan      string
	protected []string // paths that must be exactly as they are after prepare
	reported  string   // path for which a problem must be reported ("" = none required)
	exact     bool     // C09: results must equal the disk
	unknown   map[string]bool
	cancelled bool
	noChown   bool // fault: the process may not change ownership, the plan asks for another owner
}

func rtPlan(name string) []*Change {
	switch name {
	case "delete f":
		return []*Change{{Path: "f", Old: rtFile("old-content")}}
	case "swap f":
		return []*Change{{Path: "f", Old: rtFile("old-content"), New: rtFile("new-content")}}
	case "replace f by a directory":
		return []*Change{{Path: "f", Old: rtFile("old-content"), New: rtDir(map[string]*Entry{"a": rtFile("a-content")})}}
	case "delete l":
		return []*Change{{Path: "l", Old: rtLink("target-a")}}
	case "replace l by a file":
		return []*Change{{Path: "l", Old: rtLink("target-a"), New: rtFile("new-content")}}
	case "delete d":
		return []*Change{{Path: "d", Old: rtScannedD()}}
	case "delete d (scan also saw d/ghost)":
		d := rtScannedD()
		d.Contents["ghost"] = rtFile("ghost-content")
		return []*Change{{Path: "d", Old: d}}
	case "create file n":
		return []*Change{{Path: "n", New: rtFile("new-content")}}
	case "create tree n":
		return []*Change{{Path: "n", New: rtDir(map[string]*Entry{"a": rtFile("a-content"), "b": rtLink("t2"), "c": rtDir(nil)})}}
	case "delete f, create tree n, delete d":
		return []*Change{rtPlan("delete f")[0], rtPlan("create tree n")[0], rtPlan("delete d")[0]}
	}
	panic("unknown plan " + name)
}

func rtScenarios() []rtScenario {
	var out []rtScenario
	newDigest := rtDigest("new-content")

	// One difference between the scan and a file, every plan that would destroy the file.
	type difference struct {
		property, field, what string
		entryChanged          bool
		apply                 func(fx *rtFixture, p string)
	}
	differences := []difference{
		{"C08", "dmode", "chmod 0640 after the scan", false, func(fx *rtFixture, p string) { os.Chmod(fx.abs(p), 0640) }},
		{"C08", "dmtime", "modification time moved after the scan", false, func(fx *rtFixture, p string) {
			later := time.Now().Add(-time.Minute).Truncate(time.Second)
			os.Chtimes(fx.abs(p), later, later)
		}},
		{"C08", "dsize", "content extended after the scan (modification time restored)", true, func(fx *rtFixture, p string) {
			info, _ := os.Lstat(fx.abs(p))
			file, _ := os.OpenFile(fx.abs(p), os.O_WRONLY|os.O_APPEND, 0)
			file.WriteString("-and-more")
			file.Close()
			os.Chtimes(fx.abs(p), info.ModTime(), info.ModTime())
		}},
		{"C08", "dfid", "replaced after the scan by a new file with the same content, mode and times", false, func(fx *rtFixture, p string) {
			info, _ := os.Lstat(fx.abs(p))
			data, _ := os.ReadFile(fx.abs(p))
			temporary := fx.abs(p) + ".replacement"
			os.WriteFile(temporary, data, info.Mode().Perm())
			os.Chtimes(temporary, info.ModTime(), info.ModTime())
			os.Rename(temporary, fx.abs(p))
		}},
		{"C08", "dmode", "scan cache records another mode", false, func(fx *rtFixture, p string) { fx.cache.Entries[p].Mode ^= 0040 }},
		{"C08", "dmtime", "scan cache records another modification time", false, func(fx *rtFixture, p string) {
			fx.cache.Entries[p].ModificationTime = timestamppb.New(fx.cache.Entries[p].ModificationTime.AsTime().Add(time.Second))
		}},
		{"C08", "dsize", "scan cache records another size", false, func(fx *rtFixture, p string) { fx.cache.Entries[p].Size++ }},
		{"C08", "dfid", "scan cache records another file id", false, func(fx *rtFixture, p string) { fx.cache.Entries[p].FileID++ }},
		{"C08", "dfid", "scan cache records the device id as file id", false, func(fx *rtFixture, p string) {
			if fx.device[p] != fx.cache.Entries[p].FileID {
				fx.cache.Entries[p].FileID = fx.device[p]
			} else {
				fx.cache.Entries[p].FileID++
			}
		}},
		{"C01", "Digest", "scan cache records another digest than the plan expects (the plan's new one)", false, func(fx *rtFixture, p string) { fx.cache.Entries[p].Digest = newDigest }},
	}
	for _, d := range differences {
		d := d
		for _, plan := range []string{"delete f", "swap f", "replace f by a directory", "delete d"} {
			target := "f"
			if plan == "delete d" {
				target = "d/x"
			}
			out = append(out, rtScenario{property: d.property, field: d.field, what: target + ": " + d.what, plan: plan,
				prepare: func(fx *rtFixture) { d.apply(fx, target) }, protected: []string{target}, reported: target, exact: !d.entryChanged})
		}
	}

	// Symbolic links retargeted after the scan.
	retarget := func(p string) func(fx *rtFixture) {
		return func(fx *rtFixture) { os.Remove(fx.abs(p)); os.Symlink("target-b", fx.abs(p)) }
	}
	for _, plan := range []string{"delete l", "replace l by a file"} {
		out = append(out, rtScenario{property: "C08", field: "dlink", what: "l: retargeted after the scan", plan: plan, prepare: retarget("l"), protected: []string{"l"}, reported: "l"})
	}
	out = append(out, rtScenario{property: "C08", field: "dlink", what: "d/k: retargeted after the scan", plan: "delete d", prepare: retarget("d/k"), protected: []string{"d/k"}, reported: "d/k"})

	// Content the plan does not know about.
	extra := func(fx *rtFixture) { os.WriteFile(fx.abs("d/extra"), []byte("unknown"), 0600) }
	out = append(out, rtScenario{property: "C08", field: "unknown", what: "d/extra: created after the scan", plan: "delete d", prepare: extra,
		protected: []string{"d", "d/extra"}, reported: "d/extra", exact: true, unknown: map[string]bool{"d/extra": true}})
	out = append(out, rtScenario{property: "C08", field: "unknown", what: "d/extra: created after the scan, d/ghost vanished", plan: "delete d (scan also saw d/ghost)", prepare: extra,
		protected: []string{"d", "d/extra"}, reported: "d/extra", exact: true, unknown: map[string]bool{"d/extra": true}})
	out = append(out, rtScenario{property: "C08", field: "unknown", what: "n: a file appeared after the scan at a path the plan creates", plan: "create file n",
		prepare: func(fx *rtFixture) { os.WriteFile(fx.abs("n"), []byte("surprise"), 0600) }, protected: []string{"n"}, reported: "n"})

	// Undisturbed plans, cancellation and hard links: results must describe the disk.
	nothing := func(fx *rtFixture) {}
	for _, plan := range []string{"delete f", "swap f", "replace f by a directory", "delete l", "replace l by a file", "delete d", "create file n", "create tree n", "delete f, create tree n, delete d"} {
		out = append(out, rtScenario{property: "C09", field: "plain", what: "nothing changed after the scan", plan: plan, prepare: nothing, exact: true})
		out = append(out, rtScenario{property: "C09", field: "cancel", what: "context cancelled before the transition", plan: plan, prepare: nothing, exact: true, cancelled: true})
	}
	for _, plan := range []string{"create tree n", "create file n", "swap f", "replace f by a directory", "replace l by a file"} {
		out = append(out, rtScenario{property: "C09", field: "fault", what: "setting the configured owner fails (EPERM)", plan: plan, prepare: nothing, exact: true, noChown: true})
	}
	out = append(out, rtScenario{property: "C09", field: "plain", what: "x is a hard link to d/x", hardLink: true, plan: "delete d", prepare: nothing, protected: []string{"x"}, exact: true})
	out = append(out, rtScenario{property: "C09", field: "plain", what: "d/y vanished after the scan", plan: "delete d", prepare: func(fx *rtFixture) { os.Remove(fx.abs("d/y")) }, exact: true})
	return out
}

func TestReplayTransitionGuards(t *testing.T) {
	scenarios := rtScenarios()

	// Hints: scenarios about a field named by the solver's model run first.
	var model map[string]string
	_ = json.Unmarshal([]byte(rtModel), &model)
	hinted := func(s rtScenario) bool {
		for name := range model {
			if strings.Contains(name, s.field) {
				return true
			}
		}
		return false
	}
	sort.SliceStable(scenarios, func(i, j int) bool { return hinted(scenarios[i]) && !hinted(scenarios[j]) })

	confirmed := map[string]string{}
	report := func(property, what string) {
		if _, ok := confirmed[property]; !ok {
			confirmed[property] = what
		}
	}
	for _, s := range scenarios {
		fx := rtNewFixture(t, s.hardLink)
		s.prepare(fx)
		before := map[string]string{}
		for _, p := range s.protected {
			before[p] = fx.state(p)
		}
		ctx, cancel := context.WithCancel(context.Background())
		if s.cancelled {
			cancel()
		}
		transitions := rtPlan(s.plan)
		var ownership *filesystem.OwnershipSpecification
		restore := func() {}
		if s.noChown {
			// Fault injection without hooks: ask for an owner that this
			// process is not allowed to set. As root the effective user is
			// dropped to an unprivileged one for the duration of the call.
			ownership, _ = filesystem.NewOwnershipSpecification("id:12345", "")
			if os.Geteuid() == 0 {
				filepath.Walk(fx.dir, func(path string, _ os.FileInfo, _ error) error { os.Lchown(path, 65534, -1); return nil })
				if syscall.Seteuid(65534) == nil {
					restore = func() { syscall.Seteuid(0) }
				}
			}
			if _, err := os.Stat(fx.abs("f")); err != nil || ownership == nil || os.Geteuid() == 0 || os.Geteuid() == 12345 {
				restore()
				os.RemoveAll(fx.dir)
				cancel()
				continue
			}
		}
		results, problems, _ := Transition(ctx, fx.root, transitions, fx.cache, SymbolicLinkMode_SymbolicLinkModePOSIXRaw, 0600, 0700, ownership, false, fx.provider)
		restore()
		cancel()
		where := fmt.Sprintf("root {f l d{x y k}}, %s, plan %q", s.what, s.plan)
		if s.cancelled {
			where += " (cancelled)"
		}
		for _, p := range s.protected {
			if after := fx.state(p); after != before[p] {
				report(s.property, fmt.Sprintf("[%s] %s: %q was %s before the transition and is %s after it", s.property, where, p, before[p], after))
			}
		}
		if s.reported != "" {
			found := false
			for _, problem := range problems {
				if problem != nil && (problem.Path == s.reported || strings.HasPrefix(s.reported, problem.Path+"/")) {
					found = true
				}
			}
			if !found {
				report(s.property, fmt.Sprintf("[%s] %s: no problem is reported for %q (%d problems)", s.property, where, s.reported, len(problems)))
			}
		}
		if len(results) != len(transitions) {
			report("C09", fmt.Sprintf("[C09] %s: %d results for %d transitions", where, len(results), len(transitions)))
		} else if s.exact {
			for i, transition := range transitions {
				if disk := rtDisk(fx.abs(transition.Path)); !rtSame(results[i], disk, s.unknown, transition.Path) {
					report("C09", fmt.Sprintf("[C09] %s: the entry reported for %q is %s but the disk has %s", where, transition.Path, rtShow(results[i]), rtShow(disk)))
				}
			}
		}
		os.RemoveAll(fx.dir)
	}

	properties := make([]string, 0, len(confirmed))
	for p := range confirmed {
		properties = append(properties, p)
	}
	sort.Strings(properties)
	for _, p := range properties {
		fmt.Printf("REPLAY-CONFIRMED: %s\n", confirmed[p])
	}
	if len(confirmed) == 0 {
		fmt.Printf("REPLAY-NOT-REPRODUCED (%d transition scenarios)\n", len(scenarios))
	}
}
