//go:build !windows

// pkgdir: pkg/filesystem
package filesystem

// Replay for C17 (no access outside the root through symbolic links inside
// it), file-system layer: name validation, O_NOFOLLOW / AT_SYMLINK_NOFOLLOW on
// every single-component operation of Directory, Rename, and the no-follow
// open of the root. The obligations speak about flags and argument shapes; the
// replay plants symbolic links at a component and runs the real operations.
//
// Fixture (fresh per operation): <tmp>/root {f, sub/{g}, lfile -> ../canary/file,
// labs -> <absolute canary>/file, ldir -> ../canary}, <tmp>/canary {file "secret",
// clink -> t, empty/, dir/{inner}}, <tmp>/rootlink -> canary. The Directory is
// opened on root. Operations tried: every Directory method, Rename and the
// path-based Open/OpenDirectory, with the names lfile, labs, ldir (a link at the
// component), ldir/<x>, .., ../canary/<x>, sub/../../canary/<x> (names that are
// not single components), and a temporary-file name that already exists as a
// link to the canary file (the name generator is re-seeded to make the next name
// predictable).
//
// Oracle (property statement): no operation may open, read, create, modify or
// delete anything outside root by following a link that lives inside root;
// an operation whose name crosses such a link, or leaves the directory, fails.
// Checked as: (a) everything under <tmp> outside root (types, permissions,
// owners, contents, link targets) is the same after the operation, (b) an
// operation that hands back data (a handle, a listing, file content, metadata)
// did not get it from the canary tree: opening succeeds only for real entries
// of root, and metadata reported for a link describes the link itself.

import (
	"fmt"
	"io"
	"math/rand"
	"os"
	"path/filepath"
	"sort"
	"strconv"
	"strings"
	"syscall"
	"testing"
)

const rnfModel = `{{MODEL_JSON}}`

type rnfFixture struct {
	dir, root, canary string
}

func rnfNewFixture(t *testing.T) *rnfFixture {
	dir, err := os.MkdirTemp("", "c17replay")
	if err != nil {
		t.Fatal(err)
	}
	fx := &rnfFixture{dir: dir, root: filepath.Join(dir, "root"), canary: filepath.Join(dir, "canary")}
	must := func(err error) {
		if err != nil {
			os.RemoveAll(dir)
			t.Fatal(err)
		}
	}
	must(os.MkdirAll(filepath.Join(fx.root, "sub"), 0700))
	must(os.WriteFile(filepath.Join(fx.root, "f"), []byte("inside"), 0600))
	must(os.WriteFile(filepath.Join(fx.root, "sub", "g"), []byte("inside-g"), 0600))
	must(os.MkdirAll(filepath.Join(fx.canary, "dir"), 0700))
	must(os.MkdirAll(filepath.Join(fx.canary, "empty"), 0700))
	must(os.WriteFile(filepath.Join(fx.canary, "file"), []byte("secret"), 0600))
	must(os.WriteFile(filepath.Join(fx.canary, "dir", "inner"), []byte("inner"), 0600))
	must(os.Symlink("t", filepath.Join(fx.canary, "clink")))
	must(os.Symlink("../canary/file", filepath.Join(fx.root, "lfile")))
	must(os.Symlink(filepath.Join(fx.canary, "file"), filepath.Join(fx.root, "labs")))
	must(os.Symlink("../canary", filepath.Join(fx.root, "ldir")))
	must(os.Symlink("canary", filepath.Join(dir, "rootlink")))
	return fx
}

// outside describes everything under the temporary directory except root's
// contents.
func (fx *rnfFixture) outside() string {
	var lines []string
	filepath.Walk(fx.dir, func(path string, info os.FileInfo, err error) error {
		if err != nil {
			return nil
		}
		if path == fx.root {
			return filepath.SkipDir
		}
		rel, _ := filepath.Rel(fx.dir, path)
		line := rel + " " + info.Mode().String()
		if st, ok := info.Sys().(*syscall.Stat_t); ok {
			line += fmt.Sprintf(" uid=%d gid=%d", st.Uid, st.Gid)
		}
		switch {
		case info.Mode()&os.ModeSymlink != 0:
			target, _ := os.Readlink(path)
			line += " -> " + target
		case info.Mode().IsRegular():
			data, _ := os.ReadFile(path)
			line += " " + strconv.Quote(string(data))
		}
		lines = append(lines, line)
		return nil
	})
	sort.Strings(lines)
	return strings.Join(lines, "\n")
}

func rnfOutsideDiff(before, after string) string {
	b, a := map[string]bool{}, map[string]bool{}
	for _, l := range strings.Split(before, "\n") {
		b[l] = true
	}
	for _, l := range strings.Split(after, "\n") {
		a[l] = true
	}
	var out []string
	for l := range b {
		if !a[l] {
			out = append(out, "was: "+l)
		}
	}
	for l := range a {
		if !b[l] {
			out = append(out, "now: "+l)
		}
	}
	sort.Strings(out)
	return strings.Join(out, "; ")
}

type rnfOperation struct {
	what string
	// run performs the operation and returns a non-empty description if it
	// handed back something obtained from outside root
	run func(fx *rnfFixture, d *Directory) string
}

func rnfOperations() []rnfOperation {
	var ops []rnfOperation
	add := func(what string, run func(fx *rnfFixture, d *Directory) string) {
		ops = append(ops, rnfOperation{what, run})
	}
	linkNames := []string{"lfile", "labs", "ldir"}
	crossing := func(leaf string) []string {
		return []string{"ldir/" + leaf, "../canary/" + leaf, "sub/../../canary/" + leaf}
	}

	for _, name := range append([]string{"ldir", "..", "../canary", "sub/../../canary", "ldir/dir"}, crossing("dir")...) {
		name := name
		add(fmt.Sprintf("OpenDirectory(%q)", name), func(fx *rnfFixture, d *Directory) string {
			opened, err := d.OpenDirectory(name)
			if err != nil {
				return ""
			}
			names, _ := opened.ReadContentNames()
			opened.Close()
			sort.Strings(names)
			return fmt.Sprintf("it succeeded and the handle lists %v", names)
		})
	}
	for _, name := range append([]string{"lfile", "labs"}, crossing("file")...) {
		name := name
		add(fmt.Sprintf("OpenFile(%q)", name), func(fx *rnfFixture, d *Directory) string {
			file, _, err := d.OpenFile(name)
			if err != nil {
				return ""
			}
			data, _ := io.ReadAll(file)
			file.Close()
			return fmt.Sprintf("it succeeded and the file reads %q", data)
		})
	}
	for _, name := range linkNames {
		name := name
		add(fmt.Sprintf("ReadContentMetadata(%q)", name), func(fx *rnfFixture, d *Directory) string {
			metadata, err := d.ReadContentMetadata(name)
			if err != nil || metadata.Mode&ModeTypeMask == ModeTypeSymbolicLink {
				return ""
			}
			return fmt.Sprintf("it describes the link's target (mode %o, size %d) instead of the link", uint32(metadata.Mode), metadata.Size)
		})
	}
	for _, name := range crossing("file") {
		name := name
		add(fmt.Sprintf("ReadContentMetadata(%q)", name), func(fx *rnfFixture, d *Directory) string {
			if metadata, err := d.ReadContentMetadata(name); err == nil {
				return fmt.Sprintf("it succeeded (mode %o, size %d)", uint32(metadata.Mode), metadata.Size)
			}
			return ""
		})
	}
	add("ReadContents()", func(fx *rnfFixture, d *Directory) string {
		contents, err := d.ReadContents()
		if err != nil {
			return ""
		}
		for _, c := range contents {
			if strings.HasPrefix(c.Name, "l") && c.Mode&ModeTypeMask != ModeTypeSymbolicLink {
				return fmt.Sprintf("the entry %q (a symbolic link) is described by its target (mode %o, size %d)", c.Name, uint32(c.Mode), c.Size)
			}
		}
		return ""
	})
	for _, name := range crossing("clink") {
		name := name
		add(fmt.Sprintf("ReadSymbolicLink(%q)", name), func(fx *rnfFixture, d *Directory) string {
			if target, err := d.ReadSymbolicLink(name); err == nil {
				return fmt.Sprintf("it succeeded and read the target %q", target)
			}
			return ""
		})
	}
	for _, name := range append(crossing("new"), "../new") {
		name := name
		add(fmt.Sprintf("CreateDirectory(%q)", name), func(fx *rnfFixture, d *Directory) string { d.CreateDirectory(name); return "" })
		add(fmt.Sprintf("CreateSymbolicLink(%q, \"x\")", name), func(fx *rnfFixture, d *Directory) string { d.CreateSymbolicLink(name, "x"); return "" })
		add(fmt.Sprintf("CreateTemporaryFile(%q)", name+"*"), func(fx *rnfFixture, d *Directory) string {
			if created, file, err := d.CreateTemporaryFile(name + "*"); err == nil {
				file.Write([]byte("temporary"))
				file.Close()
				return fmt.Sprintf("it succeeded and created %q", created)
			}
			return ""
		})
	}
	add("CreateTemporaryFile(\"tmp*\") when the next generated name is a link to ../canary/file", func(fx *rnfFixture, d *Directory) string {
		createTemporaryFilePRNGLock.Lock()
		previous := createTemporaryFilePRNG
		createTemporaryFilePRNG = rand.New(rand.NewSource(17))
		createTemporaryFilePRNGLock.Unlock()
		defer func() {
			createTemporaryFilePRNGLock.Lock()
			createTemporaryFilePRNG = previous
			createTemporaryFilePRNGLock.Unlock()
		}()
		next := "tmp" + strconv.Itoa(rand.New(rand.NewSource(17)).Int())
		os.Symlink("../canary/file", filepath.Join(fx.root, next))
		created, file, err := d.CreateTemporaryFile("tmp*")
		if err != nil {
			return ""
		}
		file.Write([]byte("temporary"))
		file.Close()
		if created == next {
			return fmt.Sprintf("it returned the existing link %q as the new temporary file", created)
		}
		return ""
	})
	for _, name := range append(append([]string{}, linkNames...), crossing("file")...) {
		name := name
		add(fmt.Sprintf("SetPermissions(%q, owner 12345:12345, 0644)", name), func(fx *rnfFixture, d *Directory) string {
			ownership, err := NewOwnershipSpecification("id:12345", "id:12345")
			if err != nil {
				return ""
			}
			d.SetPermissions(name, ownership, 0644)
			return ""
		})
		add(fmt.Sprintf("SetPermissions(%q, nil, 0644)", name), func(fx *rnfFixture, d *Directory) string { d.SetPermissions(name, nil, 0644); return "" })
	}
	for _, name := range crossing("file") {
		name := name
		add(fmt.Sprintf("RemoveFile(%q)", name), func(fx *rnfFixture, d *Directory) string { d.RemoveFile(name); return "" })
		add(fmt.Sprintf("Rename(root, %q, root, \"stolen\", false)", name), func(fx *rnfFixture, d *Directory) string {
			Rename(d, name, d, "stolen", false)
			return ""
		})
	}
	for _, name := range append(crossing("empty"), "..") {
		name := name
		add(fmt.Sprintf("RemoveDirectory(%q)", name), func(fx *rnfFixture, d *Directory) string { d.RemoveDirectory(name); return "" })
	}
	for _, name := range append(crossing("moved"), "../moved") {
		name := name
		for _, replace := range []bool{false, true} {
			replace := replace
			add(fmt.Sprintf("Rename(root, \"f\", root, %q, %v)", name, replace), func(fx *rnfFixture, d *Directory) string {
				Rename(d, "f", d, name, replace)
				return ""
			})
		}
	}
	add("Rename(root, \"f\", root, \"../canary/file\", true)", func(fx *rnfFixture, d *Directory) string {
		Rename(d, "f", d, "../canary/file", true)
		return ""
	})
	add("Open(<tmp>/rootlink, false) where rootlink -> canary", func(fx *rnfFixture, d *Directory) string {
		if closer, _, err := Open(filepath.Join(fx.dir, "rootlink"), false); err == nil {
			closer.Close()
			return "it succeeded although the leaf of the path is a symbolic link"
		}
		return ""
	})
	add("OpenDirectory(<tmp>/rootlink, false) where rootlink -> canary", func(fx *rnfFixture, d *Directory) string {
		if opened, _, err := OpenDirectory(filepath.Join(fx.dir, "rootlink"), false); err == nil {
			names, _ := opened.ReadContentNames()
			opened.Close()
			sort.Strings(names)
			return fmt.Sprintf("it succeeded although the leaf of the path is a symbolic link; the handle lists %v", names)
		}
		return ""
	})
	for _, name := range []string{"..", ".", "a/b", "../x", "/abs"} {
		name := name
		add(fmt.Sprintf("ensureValidName(%q)", name), func(fx *rnfFixture, d *Directory) string {
			if ensureValidName(name) == nil {
				return "the name is accepted as a single path component"
			}
			return ""
		})
	}
	return ops
}

func TestReplayDirectoryNoFollow(t *testing.T) {
	operations := rnfOperations()
	var confirmed []string
	seen := map[string]bool{}
	for _, op := range operations {
		fx := rnfNewFixture(t)
		d, _, err := OpenDirectory(fx.root, false)
		if err != nil {
			os.RemoveAll(fx.dir)
			t.Fatal(err)
		}
		before := fx.outside()
		leak := op.run(fx, d)
		d.Close()
		after := fx.outside()
		kind := op.what
		if i := strings.IndexByte(kind, '('); i > 0 {
			kind = kind[:i]
		}
		if diff := rnfOutsideDiff(before, after); diff != "" && !seen[kind] && len(confirmed) < 4 {
			seen[kind] = true
			confirmed = append(confirmed, fmt.Sprintf("root {f sub/g lfile->../canary/file labs->(abs)canary/file ldir->../canary}: %s changed the tree outside root: %s", op.what, diff))
		} else if leak != "" && !seen[kind] && len(confirmed) < 4 {
			seen[kind] = true
			confirmed = append(confirmed, fmt.Sprintf("root {f sub/g lfile->../canary/file labs->(abs)canary/file ldir->../canary}: %s: %s", op.what, leak))
		}
		os.RemoveAll(fx.dir)
	}
	for _, c := range confirmed {
		fmt.Printf("REPLAY-CONFIRMED: %s\n", c)
	}
	if len(confirmed) == 0 {
		fmt.Printf("REPLAY-NOT-REPRODUCED (%d operations through planted links and invalid names)\n", len(operations))
	}
	_ = rnfModel
}
