// pkgdir: pkg/housekeeping
package housekeeping

// Replay for C43 (housekeeping removes only stale artifacts). The obligations
// abstract time and the file system by uninterpreted functions, so the replay
// builds a real, fake Mutagen data directory (MUTAGEN_DATA_DIRECTORY) in a
// temporary directory, populates it with entries whose access/modification
// times lie on both sides of the documented thresholds (agents: 30 days since
// last access of the agent binary; caches and staging roots: 7 days since last
// modification), runs the real housekeeping functions and checks the
// statement:
//   - every agent installation unused for more than 30 days, every cache and
//     every staging root unmodified for more than 7 days is gone;
//   - everything more recent (including entries dated in the future and the
//     contents of recent staging roots) is still there;
//   - nothing outside the data directory changed, although stale symbolic
//     links in all three directories point at it, and the other directories of
//     the data directory (sessions, archives) are untouched;
//   - filesystem.DirectoryContentsByPath lists only names of entries of the
//     directory (single components, no ".", "..", not the directory itself).
// Ages searched: agents 1 hour, 4, 20, 29, 31, 90 days; caches and staging
// roots 1 hour, 1, 6, 8, 30 days and 1 and 8 days in the future; names with
// tags, dots, leading underscores and prefixes of one another.

import (
	"fmt"
	"os"
	"path/filepath"
	"runtime"
	"sort"
	"strings"
	"testing"
	"time"

	"github.com/mutagen-io/mutagen/pkg/agent"
	"github.com/mutagen-io/mutagen/pkg/filesystem"
	"github.com/mutagen-io/mutagen/pkg/platform"
)

const rhkModel = `{{MODEL_JSON}}`

const rhkDay = 24 * time.Hour

// rhkTree lists every path below root with type and, for files, content.
func rhkTree(root string) map[string]string {
	out := map[string]string{}
	filepath.Walk(root, func(path string, info os.FileInfo, err error) error {
		if err != nil {
			return nil
		}
		rel, _ := filepath.Rel(root, path)
		switch {
		case info.Mode()&os.ModeSymlink != 0:
			target, _ := os.Readlink(path)
			out[rel] = "link->" + target
		case info.IsDir():
			out[rel] = "dir"
		default:
			out[rel] = "file"
		}
		return nil
	})
	return out
}

func rhkDiff(before, after map[string]string) string {
	var changes []string
	for p, b := range before {
		if a, ok := after[p]; !ok {
			changes = append(changes, p+" removed")
		} else if a != b {
			changes = append(changes, p+" changed from "+b+" to "+a)
		}
	}
	for p := range after {
		if _, ok := before[p]; !ok {
			changes = append(changes, p+" created")
		}
	}
	sort.Strings(changes)
	return strings.Join(changes, ", ")
}

func TestReplayHousekeeping(t *testing.T) {
	dir, err := os.MkdirTemp("", "c43replay")
	if err != nil {
		t.Fatal(err)
	}
	defer os.RemoveAll(dir)
	data := filepath.Join(dir, "data")
	outside := filepath.Join(dir, "outside")
	previous, had := os.LookupEnv("MUTAGEN_DATA_DIRECTORY")
	os.Setenv("MUTAGEN_DATA_DIRECTORY", data)
	defer func() {
		if had {
			os.Setenv("MUTAGEN_DATA_DIRECTORY", previous)
		} else {
			os.Unsetenv("MUTAGEN_DATA_DIRECTORY")
		}
	}()
	must := func(err error) {
		if err != nil {
			t.Fatal(err)
		}
	}
	now := time.Now()
	age := func(path string, d time.Duration) { must(os.Chtimes(path, now.Add(-d), now.Add(-d))) }
	agentName := platform.ExecutableName(agent.BaseName, runtime.GOOS)

	// Outside world: stale things that symbolic links inside point at.
	must(os.MkdirAll(filepath.Join(outside, "agentdir"), 0700))
	must(os.WriteFile(filepath.Join(outside, "agentdir", agentName), []byte("agent"), 0700))
	must(os.MkdirAll(filepath.Join(outside, "stagingroot", "sub"), 0700))
	must(os.WriteFile(filepath.Join(outside, "stagingroot", "sub", "staged"), []byte("staged"), 0600))
	must(os.WriteFile(filepath.Join(outside, "cachefile"), []byte("cache"), 0600))
	age(filepath.Join(outside, "agentdir", agentName), 400*rhkDay)
	age(filepath.Join(outside, "stagingroot", "sub", "staged"), 400*rhkDay)
	age(filepath.Join(outside, "stagingroot", "sub"), 400*rhkDay)
	age(filepath.Join(outside, "stagingroot"), 400*rhkDay)
	age(filepath.Join(outside, "cachefile"), 400*rhkDay)
	age(filepath.Join(outside, "agentdir"), 400*rhkDay)

	// Other parts of the data directory.
	must(os.MkdirAll(filepath.Join(data, filesystem.MutagenSynchronizationSessionsDirectoryName), 0700))
	must(os.MkdirAll(filepath.Join(data, filesystem.MutagenSynchronizationArchivesDirectoryName), 0700))
	oldSession := filepath.Join(data, filesystem.MutagenSynchronizationSessionsDirectoryName, "sync_old")
	oldArchive := filepath.Join(data, filesystem.MutagenSynchronizationArchivesDirectoryName, "sync_old")
	must(os.WriteFile(oldSession, []byte("session"), 0600))
	must(os.WriteFile(oldArchive, []byte("archive"), 0600))
	age(oldSession, 400*rhkDay)
	age(oldArchive, 400*rhkDay)

	type expectation struct {
		path  string // relative to the data directory
		stale bool
		what  string
	}
	var expectations []expectation
	describe := func(d time.Duration) string {
		if d < 0 {
			return fmt.Sprintf("dated %.0f days in the future", (-d).Hours()/24)
		}
		if d < rhkDay {
			return fmt.Sprintf("%.0f hours old", d.Hours())
		}
		return fmt.Sprintf("%.0f days old", d.Hours()/24)
	}

	// Agents.
	agents := filepath.Join(data, filesystem.MutagenAgentsDirectoryName)
	must(os.MkdirAll(agents, 0700))
	for name, d := range map[string]time.Duration{
		"0.18.1": time.Hour, "0.18.0": 4 * rhkDay, "0.17.9": 20 * rhkDay, "0.17.8": 29 * rhkDay, "0.17.7": 31 * rhkDay, "0.16": 90 * rhkDay,
		"0.18.1-old": 31 * rhkDay, "0.17.7-rc1": time.Hour, "abcd": 90 * rhkDay, "abcd1234": time.Hour, "tag-only": 40 * rhkDay,
	} {
		must(os.MkdirAll(filepath.Join(agents, name), 0700))
		binary := filepath.Join(agents, name, agentName)
		must(os.WriteFile(binary, []byte("agent"), 0700))
		age(binary, d)
		expectations = append(expectations, expectation{filepath.Join(filesystem.MutagenAgentsDirectoryName, name), d > 30*rhkDay,
			fmt.Sprintf("agent installation whose binary was last used %s", describe(d))})
	}
	must(os.Symlink(filepath.Join(outside, "agentdir"), filepath.Join(agents, "linked")))

	// Caches.
	caches := filepath.Join(data, filesystem.MutagenSynchronizationCachesDirectoryName)
	must(os.MkdirAll(caches, 0700))
	for name, d := range map[string]time.Duration{
		"sync_a_alpha": time.Hour, "sync_a_beta": rhkDay, "sync_b_alpha": 6 * rhkDay, "sync_b_beta": 8 * rhkDay, "sync_c_alpha": 30 * rhkDay,
		"sync_d_alpha": -rhkDay, "sync_d_beta": -8 * rhkDay, "_sync_e": 8 * rhkDay, "sync_e": time.Hour,
	} {
		path := filepath.Join(caches, name)
		must(os.WriteFile(path, []byte("cache"), 0600))
		age(path, d)
		expectations = append(expectations, expectation{filepath.Join(filesystem.MutagenSynchronizationCachesDirectoryName, name), d > 7*rhkDay,
			fmt.Sprintf("cache %s", describe(d))})
	}
	must(os.Symlink(filepath.Join(outside, "cachefile"), filepath.Join(caches, "linked")))

	// Staging roots.
	staging := filepath.Join(data, filesystem.MutagenSynchronizationStagingDirectoryName)
	must(os.MkdirAll(staging, 0700))
	for name, d := range map[string]time.Duration{
		"sync_a_alpha": time.Hour, "sync_a_beta": rhkDay, "sync_b_alpha": 6 * rhkDay, "sync_b_beta": 8 * rhkDay, "sync_c_alpha": 30 * rhkDay,
		"sync_d_alpha": -rhkDay, "sync_d_beta": -8 * rhkDay, "_sync_e": 8 * rhkDay, "sync_e": time.Hour, "_sync_f": 9 * rhkDay,
	} {
		root := filepath.Join(staging, name)
		must(os.MkdirAll(filepath.Join(root, "ab"), 0700))
		must(os.WriteFile(filepath.Join(root, "ab", "staged"), []byte("staged"), 0600))
		age(filepath.Join(root, "ab", "staged"), 400*rhkDay)
		age(filepath.Join(root, "ab"), 400*rhkDay)
		age(root, d)
		expectations = append(expectations, expectation{filepath.Join(filesystem.MutagenSynchronizationStagingDirectoryName, name), d > 7*rhkDay,
			fmt.Sprintf("staging root %s", describe(d))})
		if d <= 7*rhkDay {
			expectations = append(expectations, expectation{filepath.Join(filesystem.MutagenSynchronizationStagingDirectoryName, name, "ab", "staged"), false,
				fmt.Sprintf("staged file inside a staging root %s", describe(d))})
		}
	}
	must(os.Symlink(filepath.Join(outside, "stagingroot"), filepath.Join(staging, "linked")))

	var confirmed []string

	// The directory listing used by all three functions.
	for _, d := range []string{agents, caches, staging} {
		listing, err := filesystem.DirectoryContentsByPath(d)
		if err != nil {
			t.Fatal(err)
		}
		for _, info := range listing {
			name := info.Name()
			_, statErr := os.Lstat(filepath.Join(d, name))
			if name == "" || name == "." || name == ".." || strings.ContainsRune(name, os.PathSeparator) || statErr != nil {
				confirmed = append(confirmed, fmt.Sprintf("filesystem.DirectoryContentsByPath(%q) lists %q, which is not the name of an entry of that directory (%d names listed)", filepath.Base(d), name, len(listing)))
				break
			}
		}
	}

	outsideBefore := rhkTree(outside)
	housekeepAgents()
	housekeepCaches()
	housekeepStaging()
	Housekeep()

	sort.Slice(expectations, func(i, j int) bool { return expectations[i].path < expectations[j].path })
	var kept, removed []string
	for _, e := range expectations {
		_, err := os.Lstat(filepath.Join(data, e.path))
		present := err == nil
		if e.stale && present {
			kept = append(kept, fmt.Sprintf("%s (%s)", e.path, e.what))
		} else if !e.stale && !present {
			removed = append(removed, fmt.Sprintf("%s (%s)", e.path, e.what))
		}
	}
	if len(removed) > 0 {
		confirmed = append(confirmed, "housekeeping removed recent artifacts: "+strings.Join(removed, "; "))
	}
	if len(kept) > 0 {
		confirmed = append(confirmed, "housekeeping left stale artifacts in place: "+strings.Join(kept, "; "))
	}
	if changes := rhkDiff(outsideBefore, rhkTree(outside)); changes != "" {
		confirmed = append(confirmed, "housekeeping changed files outside the data directory (reached through a symbolic link inside it): "+changes)
	}
	for _, p := range []string{oldSession, oldArchive} {
		if _, err := os.Lstat(p); err != nil {
			confirmed = append(confirmed, "housekeeping removed "+strings.TrimPrefix(p, data+string(os.PathSeparator))+", which is neither an agent, a cache nor a staging root")
		}
	}
	for _, c := range confirmed {
		fmt.Printf("REPLAY-CONFIRMED: %s\n", c)
	}
	if len(confirmed) == 0 {
		fmt.Printf("REPLAY-NOT-REPRODUCED (%d artifacts around the thresholds, 3 symbolic links pointing outside)\n", len(expectations))
	}
	_ = rhkModel
}
