// pkgdir: pkg/url
package url

// Replay for C38 (every parsed URL is valid). Validation rejects SSH URLs
// whose user or host, and Docker URLs whose container name, start with '-'
// (C36); the parsers still produced such URLs.

import (
	"fmt"
	"testing"
)

const replayModel = `{{MODEL_JSON}}`

func TestReplayParsedInvalid(t *testing.T) {
	confirmed := false
	for _, c := range []struct {
		raw  string
		kind Kind
	}{
		{"-h:/p", Kind_Synchronization},
		{"-u@h:/p", Kind_Synchronization},
		{"-oProxyCommand=evil:tcp:localhost:80", Kind_Forwarding},
		{"docker://-c/p", Kind_Synchronization},
		{"docker://--privileged:tcp:localhost:80", Kind_Forwarding},
	} {
		u, err := Parse(c.raw, c.kind, true)
		if err != nil {
			continue
		}
		if verr := u.EnsureValid(); verr != nil {
			fmt.Printf("REPLAY-CONFIRMED: Parse(%q, %v) succeeds (user %q, host %q) but the result is invalid: %v\n", c.raw, c.kind, u.User, u.Host, verr)
			confirmed = true
		}
	}
	if !confirmed {
		fmt.Println("REPLAY-NOT-REPRODUCED")
	} else {
		t.Fail()
	}
}
