// pkgdir: pkg/synchronization/core
package core

// Replay for C05 (Apply: the base tree is never written, no panic). The
// failed obligations are the frame / nil obligations of Apply; the concrete
// input classes are (a) a change below a path whose parent component is a
// non-directory entry of the base (leaves are shared between the base and the
// working copy, so storing contents into one writes the base tree) and (b) a
// non-root change applied to a nil base. Both are tried on the real Apply.

import (
	"fmt"
	"testing"
)

const replayModel = `{{MODEL_JSON}}`

func TestReplayApplyBaseWritten(t *testing.T) {
	confirmed := ""
	// (a) base = { "f": file }, change at "f/x"
	func() {
		defer func() {
			if r := recover(); r != nil && confirmed == "" {
				confirmed = fmt.Sprintf("Apply(base{f: file}, [f/x := file]) panicked: %v", r)
			}
		}()
		leaf := &Entry{Kind: EntryKind_File, Digest: []byte{1}}
		base := &Entry{Kind: EntryKind_Directory, Contents: map[string]*Entry{"f": leaf}}
		result, err := Apply(base, []*Change{{Path: "f/x", New: &Entry{Kind: EntryKind_File, Digest: []byte{2}}}})
		if leaf.Contents != nil {
			confirmed = fmt.Sprintf("Apply(base{f: file}, [f/x := file]) returned err=%v and stored a contents map into the base's own file entry \"f\" (base tree written; base now valid=%v, result valid=%v)",
				err, base.EnsureValid(true) == nil, result.EnsureValid(true) == nil)
		}
	}()
	// (b) nil base, non-root change
	if confirmed == "" {
		func() {
			defer func() {
				if r := recover(); r != nil {
					confirmed = fmt.Sprintf("Apply(nil, [a := file]) panicked instead of reporting an unresolvable parent: %v", r)
				}
			}()
			Apply(nil, []*Change{{Path: "a", New: &Entry{Kind: EntryKind_File, Digest: []byte{1}}}})
		}()
	}
	if confirmed != "" {
		fmt.Println("REPLAY-CONFIRMED: " + confirmed)
	} else {
		fmt.Println("REPLAY-NOT-REPRODUCED")
	}
}
