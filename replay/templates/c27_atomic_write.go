// pkgdir: pkg/filesystem
package filesystem

// Replay for C27 (atomic replacement of persistent files): "Writing a ... file
// leaves, after a crash at any point, either the complete previous content or
// the complete new content at the target path, never a partial file. A failed
// write leaves no stray files other than Mutagen temporary files, which scans
// ignore." The replay runs the real WriteFileAtomic on a scratch directory
// (removed afterwards):
//  - old contents {absent, empty, 5 bytes, 70000 bytes} x new contents {empty,
//    1 byte, 4097 bytes, 100000 bytes} x permissions {0600, 0644}: the call
//    succeeds, the target holds exactly the new content with the requested
//    permissions, and nothing else is left in the directory or its parent;
//  - failing renames (the target path is a non-empty directory; the target's
//    directory does not exist): the call fails, the old state is untouched and
//    nothing but Mutagen temporary files is left behind;
//  - a target reached through a symbolic link into another filesystem
//    (/dev/shm, when it is a different device): the write must still succeed,
//    which it does only if the temporary file lives in the target's directory;
//  - crash sampling: while 24 MB are being written over an old file, a second
//    goroutine keeps listing the directory, its parent and reading the target:
//    whatever it sees is what a crash at that instant would leave. The target
//    must hold the complete old or the complete new content at every sample
//    and every other file seen must carry the Mutagen temporary prefix and be
//    in the target's directory.

import (
	"bytes"
	"fmt"
	"os"
	"path/filepath"
	"strings"
	"sync/atomic"
	"syscall"
	"testing"
)

const replayModelC27 = `{{MODEL_JSON}}`

func c27Content(n int, seed byte) []byte {
	b := make([]byte, n)
	for i := range b {
		b[i] = seed + byte(i%251)
	}
	return b
}

// c27Strays lists entries of dir other than the allowed names.
func c27Strays(dir string, allowed ...string) []string {
	entries, _ := os.ReadDir(dir)
	var out []string
outer:
	for _, e := range entries {
		for _, a := range allowed {
			if e.Name() == a {
				continue outer
			}
		}
		out = append(out, e.Name())
	}
	return out
}

func c27NonTemporary(names []string) []string {
	var out []string
	for _, n := range names {
		if !strings.HasPrefix(n, TemporaryNamePrefix) {
			out = append(out, n)
		}
	}
	return out
}

func c27Run(base string) string {
	parent := filepath.Join(base, "parent")
	dir := filepath.Join(parent, "dir")
	if err := os.MkdirAll(dir, 0700); err != nil {
		return ""
	}
	target := filepath.Join(dir, "session")
	// successful writes
	for _, oldLen := range []int{-1, 0, 5, 70000} {
		for _, newLen := range []int{0, 1, 4097, 100000} {
			for _, mode := range []os.FileMode{0600, 0644} {
				os.Remove(target)
				desc := fmt.Sprintf("no previous file, %d new bytes, permissions %o", newLen, mode)
				if oldLen >= 0 {
					os.WriteFile(target, c27Content(oldLen, 1), 0600)
					desc = fmt.Sprintf("%d previous bytes, %d new bytes, permissions %o", oldLen, newLen, mode)
				}
				want := c27Content(newLen, 7)
				if err := WriteFileAtomic(target, want, mode); err != nil {
					return fmt.Sprintf("%s: WriteFileAtomic failed on a healthy directory: %v", desc, err)
				}
				got, err := os.ReadFile(target)
				if err != nil || !bytes.Equal(got, want) {
					return fmt.Sprintf("%s: WriteFileAtomic returned nil but the target holds %d bytes (read error %v) that are not the %d new bytes", desc, len(got), err, len(want))
				}
				if info, err := os.Stat(target); err != nil || info.Mode().Perm() != mode {
					return fmt.Sprintf("%s: the target's permissions are %v", desc, info.Mode().Perm())
				}
				if s := append(c27Strays(dir, "session"), c27Strays(parent, "dir")...); len(s) > 0 {
					return fmt.Sprintf("%s: after a successful write these files are left behind: %q", desc, s)
				}
			}
		}
	}
	// failing rename: the target is a non-empty directory
	{
		blocked := filepath.Join(dir, "blocked")
		os.MkdirAll(filepath.Join(blocked, "child"), 0700)
		err := WriteFileAtomic(blocked, c27Content(100, 3), 0600)
		if _, statErr := os.Stat(filepath.Join(blocked, "child")); statErr != nil {
			return fmt.Sprintf("a write onto a path occupied by a non-empty directory destroyed that directory (result %v)", err)
		}
		if err == nil {
			return "a write onto a path occupied by a non-empty directory returned nil although the path does not hold the new content"
		}
		if s := c27NonTemporary(append(c27Strays(dir, "session", "blocked"), c27Strays(parent, "dir")...)); len(s) > 0 {
			return fmt.Sprintf("a failed write (target occupied by a directory) left files that are not Mutagen temporary files: %q", s)
		}
		os.RemoveAll(blocked)
		for _, s := range c27Strays(dir, "session") {
			os.Remove(filepath.Join(dir, s))
		}
	}
	// failing creation: the directory does not exist
	{
		err := WriteFileAtomic(filepath.Join(dir, "missing", "file"), c27Content(10, 3), 0600)
		if err == nil {
			return "a write into a directory that does not exist returned nil"
		}
		if s := c27NonTemporary(append(c27Strays(dir, "session"), c27Strays(parent, "dir")...)); len(s) > 0 {
			return fmt.Sprintf("a failed write (missing directory) left files that are not Mutagen temporary files: %q", s)
		}
	}
	// a target directory on another filesystem, reached through a symbolic link
	if shm, err := os.MkdirTemp("/dev/shm", "c27replay"); err == nil {
		defer os.RemoveAll(shm)
		var a, b syscall.Stat_t
		if syscall.Stat(shm, &a) == nil && syscall.Stat(dir, &b) == nil && a.Dev != b.Dev {
			link := filepath.Join(dir, "link")
			if os.Symlink(shm, link) == nil {
				want := c27Content(5000, 9)
				err := WriteFileAtomic(filepath.Join(link, "cache"), want, 0600)
				got, _ := os.ReadFile(filepath.Join(shm, "cache"))
				strays := append(c27Strays(dir, "session", "link"), c27Strays(parent, "dir")...)
				os.Remove(link)
				if err != nil || !bytes.Equal(got, want) {
					return fmt.Sprintf("target directory on another filesystem than its lexical parent (dir/link -> %s): WriteFileAtomic returned %v and the target holds %d of %d bytes; files left outside the target's directory: %q (the temporary file must be created in the target's own directory)", shm, err, len(got), len(want), strays)
				}
				if len(strays) > 0 {
					return fmt.Sprintf("target directory reached through a symbolic link: files left outside the target's directory: %q", strays)
				}
			}
		}
	}
	// crash sampling
	{
		old := c27Content(3000000, 11)
		new := c27Content(24000000, 13)
		for round := 0; round < 3; round++ {
			os.WriteFile(target, old, 0600)
			var stop int32
			found := make(chan string, 1)
			samples, sawTemporary := 0, false
			go func() {
				bad := ""
				for atomic.LoadInt32(&stop) == 0 && bad == "" {
					samples++
					for _, name := range c27Strays(dir, "session") {
						if strings.HasPrefix(name, TemporaryNamePrefix) {
							sawTemporary = true
						} else {
							bad = fmt.Sprintf("while the write was in progress the target's directory contained %q, which does not carry the Mutagen temporary prefix %q: a crash at that instant leaves a stray file that scans do not ignore", name, TemporaryNamePrefix)
						}
					}
					if s := c27Strays(parent, "dir"); len(s) > 0 && bad == "" {
						bad = fmt.Sprintf("while the write was in progress the parent of the target's directory contained %q: the temporary file is not in the target's directory", s)
					}
					if got, err := os.ReadFile(target); bad == "" && (err != nil || (!bytes.Equal(got, old) && !bytes.Equal(got, new))) {
						bad = fmt.Sprintf("while the write was in progress the target path held %d bytes (read error %v), neither the complete previous content (%d bytes) nor the complete new content (%d bytes): a crash at that instant leaves a partial file", len(got), err, len(old), len(new))
					}
				}
				found <- bad
			}()
			err := WriteFileAtomic(target, new, 0600)
			atomic.StoreInt32(&stop, 1)
			bad := <-found
			if bad != "" {
				return fmt.Sprintf("replacing %d bytes by %d bytes (sampling round %d, %d samples): %s", len(old), len(new), round+1, samples, bad)
			}
			if err != nil {
				return fmt.Sprintf("replacing %d bytes by %d bytes failed on a healthy directory: %v", len(old), len(new), err)
			}
			if sawTemporary {
				break
			}
		}
	}
	return ""
}

func TestReplayAtomicWrite(t *testing.T) {
	root := os.Getenv("MUTAGEN_DATA_DIRECTORY")
	base, err := os.MkdirTemp(root, "c27replay")
	if err != nil {
		fmt.Printf("REPLAY-NOT-REPRODUCED (no scratch directory: %v)\n", err)
		return
	}
	defer os.RemoveAll(base)
	if bad := c27Run(base); bad != "" {
		fmt.Printf("REPLAY-CONFIRMED: %s\n", bad)
		return
	}
	fmt.Printf("REPLAY-NOT-REPRODUCED (successful replacements, failing renames, cross-filesystem directory, crash sampling)\n")
}
