// pkgdir: pkg/agent
package agent

// Replay for C46 (bundle search order). The failing obligation says: when the
// search loop opens a second bundle, an earlier open had already succeeded.
// The concrete layout is <prefix>/bin/<executable> with an agent bundle both
// beside the executable and in <prefix>/libexec, the two bundles holding
// different bytes for the same platform. The test copies its own binary into
// such a layout and re-executes it there; the child calls the real
// ExecutableForPlatform in the default bundle location mode.

import (
	"archive/tar"
	"bytes"
	"compress/gzip"
	"fmt"
	"io"
	"os"
	"os/exec"
	"path/filepath"
	"testing"
)

const replayModel = `{{MODEL_JSON}}`

func c46WriteBundle(path string, content []byte) error {
	var buffer bytes.Buffer
	zw := gzip.NewWriter(&buffer)
	tw := tar.NewWriter(zw)
	if err := tw.WriteHeader(&tar.Header{Name: "linux_amd64", Mode: 0700, Size: int64(len(content))}); err != nil {
		return err
	}
	if _, err := tw.Write(content); err != nil {
		return err
	}
	if err := tw.Close(); err != nil {
		return err
	}
	if err := zw.Close(); err != nil {
		return err
	}
	return os.WriteFile(path, buffer.Bytes(), 0600)
}

func TestReplayBundleOrder(t *testing.T) {
	// Child mode: extract with the real code and stop.
	if output := os.Getenv("C46_CHILD_OUTPUT"); output != "" {
		previous := ExpectedBundleLocation
		ExpectedBundleLocation = BundleLocationDefault
		defer func() { ExpectedBundleLocation = previous }()
		if _, err := ExecutableForPlatform("linux", "amd64", output); err != nil {
			fmt.Println("CHILD-ERROR:", err)
		}
		return
	}

	prefix, err := os.MkdirTemp("", "c46replay")
	if err != nil {
		t.Fatal(err)
	}
	defer os.RemoveAll(prefix)
	binDirectory := filepath.Join(prefix, "bin")
	libexecDirectory := filepath.Join(prefix, "libexec")
	os.Mkdir(binDirectory, 0700)
	os.Mkdir(libexecDirectory, 0700)

	// Copy the running test binary into <prefix>/bin.
	self, err := os.Executable()
	if err != nil {
		t.Fatal(err)
	}
	source, err := os.Open(self)
	if err != nil {
		t.Fatal(err)
	}
	copyPath := filepath.Join(binDirectory, "mutagen-c46")
	target, err := os.OpenFile(copyPath, os.O_WRONLY|os.O_CREATE|os.O_TRUNC, 0700)
	if err != nil {
		t.Fatal(err)
	}
	if _, err := io.Copy(target, source); err != nil {
		t.Fatal(err)
	}
	source.Close()
	target.Close()

	beside := []byte("agent from the bundle beside the executable")
	libexec := []byte("agent from the bundle in libexec")
	if err := c46WriteBundle(filepath.Join(binDirectory, BundleName), beside); err != nil {
		t.Fatal(err)
	}
	if err := c46WriteBundle(filepath.Join(libexecDirectory, BundleName), libexec); err != nil {
		t.Fatal(err)
	}

	output := filepath.Join(prefix, "extracted")
	child := exec.Command(copyPath, "-test.run", "^TestReplayBundleOrder$", "-test.count=1")
	child.Env = append(os.Environ(), "C46_CHILD_OUTPUT="+output)
	childOutput, err := child.CombinedOutput()
	if err != nil {
		t.Fatalf("child failed: %v\n%s", err, childOutput)
	}
	extracted, err := os.ReadFile(output)
	if err != nil {
		t.Fatalf("no extracted agent: %v\n%s", err, childOutput)
	}
	switch {
	case bytes.Equal(extracted, libexec):
		fmt.Printf("REPLAY-CONFIRMED: bundles in %s and in %s; extracted %q: the libexec bundle overrides the one beside the executable\n", binDirectory, libexecDirectory, extracted)
		t.Fail()
	case bytes.Equal(extracted, beside):
		fmt.Println("REPLAY-NOT-REPRODUCED: the bundle beside the executable was used")
	default:
		t.Fatalf("unexpected extracted content %q", extracted)
	}
}
