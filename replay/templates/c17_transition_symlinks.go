// pkgdir: pkg/synchronization/core
package core

// Replay for C17 (no access outside the root through symbolic links inside
// it), transition layer: the parent walk of core.Transition. The obligations
// describe abstract positions of directory handles; the replay runs the real
// core.Transition on temporary roots in which a directory on a planned path
// was replaced by a symbolic link to a canary directory between the scan and
// the transition.
//
// Scenarios (fresh root each):
//   A  root {d/{x}, f}; after the scan d/x is moved to canary/x (same inode, so
//      the scan cache still matches it) and d becomes a link to ../canary.
//      Plans below d: delete d/x, swap d/x, create the file d/new, the directory
//      d/nd and the link d/nl, delete the directory d.
//   B  the root itself is replaced by a link to the canary (its file f moved
//      there); plans: delete f, swap f, create new.
//   C  root {ld -> ../canary, x/{x}}; the cache entry for "ld/x" matches the
//      file x/x; plan: delete ld/x (a path that crosses the link ld).
//
// Oracle (property statement): nothing under the temporary directory outside
// root changes (types, permissions, contents, link targets), and a transition
// whose path crosses a link fails: it reports a problem, its result is the old
// entry (nothing was done), and files of root that the plan does not name stay.

import (
	"context"
	"crypto/sha1"
	"encoding/hex"
	"fmt"
	"os"
	"path/filepath"
	"sort"
	"strconv"
	"strings"
	"testing"

	"google.golang.org/protobuf/types/known/timestamppb"

	"github.com/mutagen-io/mutagen/pkg/filesystem"
)

const rtsModel = `{{MODEL_JSON}}`

func rtsDigest(content string) []byte {
	sum := sha1.Sum([]byte(content))
	return sum[:]
}

type rtsProvider struct{ dir string }

func (p *rtsProvider) Provide(path string, digest []byte) (string, error) {
	name := filepath.Join(p.dir, hex.EncodeToString(digest)+"-"+strings.ReplaceAll(path, "/", "_"))
	if err := os.WriteFile(name, []byte("new-content"), 0600); err != nil {
		return "", err
	}
	return name, nil
}

type rtsFixture struct {
	dir, root, canary string
	cache             *Cache
}

func (fx *rtsFixture) record(cachePath, diskPath, content string) {
	parent, _, err := filesystem.OpenDirectory(filepath.Dir(diskPath), false)
	if err != nil {
		panic(err)
	}
	defer parent.Close()
	m, err := parent.ReadContentMetadata(filepath.Base(diskPath))
	if err != nil {
		panic(err)
	}
	fx.cache.Entries[cachePath] = &CacheEntry{Mode: uint32(m.Mode), ModificationTime: timestamppb.New(m.ModificationTime), Size: m.Size, FileID: m.FileID, Digest: rtsDigest(content)}
}

// snapshot describes everything under the temporary directory except the
// contents of root and the staging directory.
func (fx *rtsFixture) snapshot() string {
	var lines []string
	filepath.Walk(fx.dir, func(path string, info os.FileInfo, err error) error {
		if err != nil {
			return nil
		}
		if info.IsDir() && (path == fx.root || path == filepath.Join(fx.dir, "staging")) {
			return filepath.SkipDir
		}
		rel, _ := filepath.Rel(fx.dir, path)
		line := rel + " " + info.Mode().String()
		switch {
		case info.Mode()&os.ModeSymlink != 0:
			target, _ := os.Readlink(path)
			line += " -> " + target
		case info.Mode().IsRegular():
			data, _ := os.ReadFile(path)
			line += " " + strconv.Quote(string(data))
		}
		lines = append(lines, line)
		return nil
	})
	sort.Strings(lines)
	return strings.Join(lines, "\n")
}

func rtsDiff(before, after string) string {
	b, a := map[string]bool{}, map[string]bool{}
	for _, l := range strings.Split(before, "\n") {
		b[l] = true
	}
	for _, l := range strings.Split(after, "\n") {
		a[l] = true
	}
	var out []string
	for l := range b {
		if !a[l] {
			out = append(out, "was: "+l)
		}
	}
	for l := range a {
		if !b[l] {
			out = append(out, "now: "+l)
		}
	}
	sort.Strings(out)
	return strings.Join(out, "; ")
}

type rtsScenario struct {
	what    string
	prepare func(fx *rtsFixture)
	plans   map[string]*Change
	// kept lists files inside root that no plan names and that must stay
	kept []string
}

func rtsFile(content string) *Entry {
	return &Entry{Kind: EntryKind_File, Digest: rtsDigest(content)}
}

func rtsScenarios() []rtsScenario {
	return []rtsScenario{
		{
			what: "root {d/{x} f}; after the scan d/x was moved to canary/x and d replaced by a link to ../canary",
			prepare: func(fx *rtsFixture) {
				os.Mkdir(filepath.Join(fx.root, "d"), 0700)
				os.WriteFile(filepath.Join(fx.root, "d", "x"), []byte("x-content"), 0600)
				os.WriteFile(filepath.Join(fx.root, "f"), []byte("f-content"), 0600)
				fx.record("d/x", filepath.Join(fx.root, "d", "x"), "x-content")
				fx.record("f", filepath.Join(fx.root, "f"), "f-content")
				os.Rename(filepath.Join(fx.root, "d", "x"), filepath.Join(fx.canary, "x"))
				os.Remove(filepath.Join(fx.root, "d"))
				os.Symlink("../canary", filepath.Join(fx.root, "d"))
			},
			plans: map[string]*Change{
				"delete d/x":             {Path: "d/x", Old: rtsFile("x-content")},
				"swap d/x":               {Path: "d/x", Old: rtsFile("x-content"), New: rtsFile("new-content")},
				"create file d/new":      {Path: "d/new", New: rtsFile("new-content")},
				"create directory d/nd":  {Path: "d/nd", New: &Entry{Kind: EntryKind_Directory}},
				"create link d/nl":       {Path: "d/nl", New: &Entry{Kind: EntryKind_SymbolicLink, Target: "t"}},
				"delete the directory d": {Path: "d", Old: &Entry{Kind: EntryKind_Directory, Contents: map[string]*Entry{"x": rtsFile("x-content")}}},
			},
			kept: []string{"f"},
		},
		{
			what: "root {f}; after the scan the root was replaced by a link to canary and f moved to canary/f",
			prepare: func(fx *rtsFixture) {
				os.WriteFile(filepath.Join(fx.root, "f"), []byte("f-content"), 0600)
				fx.record("f", filepath.Join(fx.root, "f"), "f-content")
				os.Rename(filepath.Join(fx.root, "f"), filepath.Join(fx.canary, "f"))
				os.Remove(fx.root)
				os.Symlink("canary", fx.root)
			},
			plans: map[string]*Change{
				"delete f":        {Path: "f", Old: rtsFile("f-content")},
				"swap f":          {Path: "f", Old: rtsFile("f-content"), New: rtsFile("new-content")},
				"create file new": {Path: "new", New: rtsFile("new-content")},
			},
		},
		{
			what: "root {ld -> ../canary, x/{x}}; the scan cache entry of \"ld/x\" matches x/x",
			prepare: func(fx *rtsFixture) {
				os.Mkdir(filepath.Join(fx.root, "x"), 0700)
				os.WriteFile(filepath.Join(fx.root, "x", "x"), []byte("x-content"), 0600)
				os.WriteFile(filepath.Join(fx.canary, "x"), []byte("canary-x"), 0600)
				fx.record("ld/x", filepath.Join(fx.root, "x", "x"), "x-content")
				os.Symlink("../canary", filepath.Join(fx.root, "ld"))
			},
			plans: map[string]*Change{
				"delete ld/x": {Path: "ld/x", Old: rtsFile("x-content")},
			},
			kept: []string{"x/x"},
		},
	}
}

func TestReplayTransitionSymbolicLinks(t *testing.T) {
	var confirmed []string
	executed := 0
	for _, s := range rtsScenarios() {
		names := make([]string, 0, len(s.plans))
		for name := range s.plans {
			names = append(names, name)
		}
		sort.Strings(names)
		for _, name := range names {
			executed++
			dir, err := os.MkdirTemp("", "c17replay")
			if err != nil {
				t.Fatal(err)
			}
			fx := &rtsFixture{dir: dir, root: filepath.Join(dir, "root"), canary: filepath.Join(dir, "canary"), cache: &Cache{Entries: map[string]*CacheEntry{}}}
			os.Mkdir(fx.root, 0700)
			os.Mkdir(fx.canary, 0700)
			os.Mkdir(filepath.Join(dir, "staging"), 0700)
			os.WriteFile(filepath.Join(fx.canary, "keep"), []byte("canary"), 0600)
			s.prepare(fx)
			before := fx.snapshot()
			change := s.plans[name]
			results, problems, _ := Transition(context.Background(), fx.root, []*Change{change}, fx.cache, SymbolicLinkMode_SymbolicLinkModePOSIXRaw, 0600, 0700, nil, false, &rtsProvider{dir: filepath.Join(dir, "staging")})
			where := fmt.Sprintf("%s; plan %q", s.what, name)
			bad := ""
			if diff := rtsDiff(before, fx.snapshot()); diff != "" {
				bad = "the tree outside root changed: " + diff
			} else if len(problems) == 0 {
				bad = "the path crosses a symbolic link but no problem is reported"
			} else if len(results) != 1 || !(results[0] == change.Old || (results[0] != nil && change.Old != nil && results[0].Kind == change.Old.Kind && results[0].Equal(change.Old, true))) {
				bad = fmt.Sprintf("the path crosses a symbolic link but the transition does not report its old entry back (%d results)", len(results))
			} else {
				for _, k := range s.kept {
					if _, err := os.Lstat(filepath.Join(fx.root, filepath.FromSlash(k))); err != nil {
						bad = fmt.Sprintf("%q, which the plan does not name, is gone", k)
					}
				}
			}
			if bad != "" && len(confirmed) < 3 {
				confirmed = append(confirmed, where+": "+bad)
			}
			os.RemoveAll(dir)
		}
	}
	for _, c := range confirmed {
		fmt.Printf("REPLAY-CONFIRMED: %s\n", c)
	}
	if len(confirmed) == 0 {
		fmt.Printf("REPLAY-NOT-REPRODUCED (%d transitions across planted links)\n", executed)
	}
	_ = rtsModel
}
