// pkgdir: pkg/synchronization
package synchronization

// Replay for C37 (configuration validation, merging and the text form of the
// modes). Oracles from the property statement, searched over the product of
// small value domains:
//
//   round trip  every non-default value of every mode enumeration (the values
//               named by the generated <Type>_name tables) is written by its
//               marshalling method without error and the text is read back by
//               UnmarshalText (UnmarshalJSON for the VCS ignore mode) as the
//               same value;
//   merge       MergeConfigurations(session, endpoint) takes every scalar
//               field from the endpoint configuration when it is set there
//               (non-zero) and from the session configuration otherwise, and
//               both ignore lists are session ++ endpoint in order (checked
//               field by field through reflection); the arguments are not
//               modified and the lists of the result are not aliased to them;
//   noexec      a session-wide configuration, and the merge of a valid session
//               and a valid endpoint-specific configuration that is accepted by
//               EnsureValid(false) (what endpoint initialization checks), has
//               no executable bits in DefaultFileMode when the effective
//               permissions mode is portable (unset counts as portable).
//
// newSession itself is replayed by c37_newsession_effective.go.

import (
	"fmt"
	"reflect"
	"sort"
	"testing"

	"github.com/mutagen-io/mutagen/pkg/filesystem/behavior"
	"github.com/mutagen-io/mutagen/pkg/synchronization/compression"
	"github.com/mutagen-io/mutagen/pkg/synchronization/core"
	"github.com/mutagen-io/mutagen/pkg/synchronization/core/ignore"
	"github.com/mutagen-io/mutagen/pkg/synchronization/hashing"
)

const rcfModel = `{{MODEL_JSON}}`

type rcfEnumeration struct {
	name  string
	names map[int32]string
	write func(v int32) ([]byte, error)
	read  func(text []byte, initial int32) (int32, error)
}

func rcfEnumerations() []rcfEnumeration {
	return []rcfEnumeration{
		{"synchronization.WatchMode", WatchMode_name,
			func(v int32) ([]byte, error) { return WatchMode(v).MarshalText() },
			func(b []byte, i int32) (int32, error) { m := WatchMode(i); err := m.UnmarshalText(b); return int32(m), err }},
		{"synchronization.ScanMode", ScanMode_name,
			func(v int32) ([]byte, error) { return ScanMode(v).MarshalText() },
			func(b []byte, i int32) (int32, error) { m := ScanMode(i); err := m.UnmarshalText(b); return int32(m), err }},
		{"synchronization.StageMode", StageMode_name,
			func(v int32) ([]byte, error) { return StageMode(v).MarshalText() },
			func(b []byte, i int32) (int32, error) { m := StageMode(i); err := m.UnmarshalText(b); return int32(m), err }},
		{"core.SynchronizationMode", core.SynchronizationMode_name,
			func(v int32) ([]byte, error) { return core.SynchronizationMode(v).MarshalText() },
			func(b []byte, i int32) (int32, error) {
				m := core.SynchronizationMode(i)
				err := m.UnmarshalText(b)
				return int32(m), err
			}},
		{"core.PermissionsMode", core.PermissionsMode_name,
			func(v int32) ([]byte, error) { return core.PermissionsMode(v).MarshalText() },
			func(b []byte, i int32) (int32, error) {
				m := core.PermissionsMode(i)
				err := m.UnmarshalText(b)
				return int32(m), err
			}},
		{"core.SymbolicLinkMode", core.SymbolicLinkMode_name,
			func(v int32) ([]byte, error) { return core.SymbolicLinkMode(v).MarshalText() },
			func(b []byte, i int32) (int32, error) {
				m := core.SymbolicLinkMode(i)
				err := m.UnmarshalText(b)
				return int32(m), err
			}},
		{"ignore.Syntax", ignore.Syntax_name,
			func(v int32) ([]byte, error) { return ignore.Syntax(v).MarshalText() },
			func(b []byte, i int32) (int32, error) { m := ignore.Syntax(i); err := m.UnmarshalText(b); return int32(m), err }},
		{"ignore.IgnoreVCSMode (JSON)", ignore.IgnoreVCSMode_name,
			func(v int32) ([]byte, error) { return ignore.IgnoreVCSMode(v).MarshalJSON() },
			func(b []byte, i int32) (int32, error) {
				m := ignore.IgnoreVCSMode(i)
				err := m.UnmarshalJSON(b)
				return int32(m), err
			}},
		{"ignore.IgnoreVCSMode (JSON written, text read)", ignore.IgnoreVCSMode_name,
			func(v int32) ([]byte, error) { return ignore.IgnoreVCSMode(v).MarshalJSON() },
			func(b []byte, i int32) (int32, error) {
				m := ignore.IgnoreVCSMode(i)
				err := m.UnmarshalText(b)
				return int32(m), err
			}},
		{"hashing.Algorithm", hashing.Algorithm_name,
			func(v int32) ([]byte, error) { return hashing.Algorithm(v).MarshalText() },
			func(b []byte, i int32) (int32, error) { m := hashing.Algorithm(i); err := m.UnmarshalText(b); return int32(m), err }},
		{"compression.Algorithm", compression.Algorithm_name,
			func(v int32) ([]byte, error) { return compression.Algorithm(v).MarshalText() },
			func(b []byte, i int32) (int32, error) {
				m := compression.Algorithm(i)
				err := m.UnmarshalText(b)
				return int32(m), err
			}},
		{"behavior.ProbeMode", behavior.ProbeMode_name,
			func(v int32) ([]byte, error) { return behavior.ProbeMode(v).MarshalText() },
			func(b []byte, i int32) (int32, error) { m := behavior.ProbeMode(i); err := m.UnmarshalText(b); return int32(m), err }},
	}
}

func rcfRoundTrips(report func(string)) int {
	checked := 0
	for _, e := range rcfEnumerations() {
		values := make([]int, 0, len(e.names))
		for v := range e.names {
			values = append(values, int(v))
		}
		sort.Ints(values)
		for _, value := range values {
			v := int32(value)
			if v == 0 {
				continue // the default value is "unset" and is never written
			}
			checked++
			text, err := e.write(v)
			if err != nil {
				report(fmt.Sprintf("%s value %d (%s) cannot be written as text: %v", e.name, v, e.names[v], err))
				continue
			}
			// read into a destination holding another value, so that a no-op
			// is not mistaken for success
			initial := int32(0)
			back, err := e.read(text, initial)
			if err != nil {
				report(fmt.Sprintf("%s value %d (%s) is written as %q, which UnmarshalText rejects: %v", e.name, v, e.names[v], text, err))
			} else if back != v {
				report(fmt.Sprintf("%s value %d (%s) is written as %q and read back as %d (%s)", e.name, v, e.names[v], text, back, e.names[back]))
			}
		}
	}
	return checked
}

// rcfDomains gives, per configuration field, a small set of values (the zero
// value first).
func rcfDomains() map[string][]interface{} {
	return map[string][]interface{}{
		"SynchronizationMode":    {core.SynchronizationMode(0), core.SynchronizationMode_SynchronizationModeTwoWaySafe, core.SynchronizationMode_SynchronizationModeOneWayReplica},
		"HashingAlgorithm":       {hashing.Algorithm(0), hashing.Algorithm_AlgorithmSHA1, hashing.Algorithm_AlgorithmSHA256},
		"MaximumEntryCount":      {uint64(0), uint64(10), uint64(20)},
		"MaximumStagingFileSize": {uint64(0), uint64(1000), uint64(2000)},
		"ProbeMode":              {behavior.ProbeMode(0), behavior.ProbeMode_ProbeModeProbe, behavior.ProbeMode_ProbeModeAssume},
		"ScanMode":               {ScanMode(0), ScanMode_ScanModeFull, ScanMode_ScanModeAccelerated},
		"StageMode":              {StageMode(0), StageMode_StageModeMutagen, StageMode_StageModeNeighboring},
		"SymbolicLinkMode":       {core.SymbolicLinkMode(0), core.SymbolicLinkMode_SymbolicLinkModeIgnore, core.SymbolicLinkMode_SymbolicLinkModePortable},
		"WatchMode":              {WatchMode(0), WatchMode_WatchModePortable, WatchMode_WatchModeNoWatch},
		"WatchPollingInterval":   {uint32(0), uint32(5), uint32(7)},
		"IgnoreSyntax":           {ignore.Syntax(0), ignore.Syntax_SyntaxMutagen, ignore.Syntax_SyntaxDocker},
		"DefaultIgnores":         {[]string(nil), []string{"d1"}, []string{"d2", "d3"}},
		"Ignores":                {[]string(nil), []string{"i1"}, []string{"i2", "i3"}},
		"IgnoreVCSMode":          {ignore.IgnoreVCSMode(0), ignore.IgnoreVCSMode_IgnoreVCSModeIgnore, ignore.IgnoreVCSMode_IgnoreVCSModePropagate},
		"PermissionsMode":        {core.PermissionsMode(0), core.PermissionsMode_PermissionsModePortable, core.PermissionsMode_PermissionsModeManual},
		"DefaultFileMode":        {uint32(0), uint32(0600), uint32(0644)},
		"DefaultDirectoryMode":   {uint32(0), uint32(0700), uint32(0755)},
		"DefaultOwner":           {"", "id:1", "id:2"},
		"DefaultGroup":           {"", "id:3", "id:4"},
		"CompressionAlgorithm":   {compression.Algorithm(0), compression.Algorithm_AlgorithmNone, compression.Algorithm_AlgorithmDeflate},
	}
}

// rcfSnapshot renders the exported fields of a configuration.
func rcfSnapshot(c *Configuration) string {
	out := ""
	for _, f := range rcfExportedFields() {
		out += fmt.Sprintf("%s=%#v;", f.Name, reflect.ValueOf(c).Elem().FieldByName(f.Name).Interface())
	}
	return out
}

func rcfExportedFields() []reflect.StructField {
	var out []reflect.StructField
	typ := reflect.TypeOf(Configuration{})
	for i := 0; i < typ.NumField(); i++ {
		if f := typ.Field(i); f.PkgPath == "" {
			out = append(out, f)
		}
	}
	return out
}

// rcfMerges checks MergeConfigurations field by field: for every field, all
// pairs of domain values, once with all other fields unset and once with all
// other fields set on both sides.
func rcfMerges(report func(string)) int {
	domains := rcfDomains()
	fields := rcfExportedFields()
	checked := 0
	fill := func(c *Configuration, index int) {
		for _, f := range fields {
			if d, ok := domains[f.Name]; ok {
				reflect.ValueOf(c).Elem().FieldByName(f.Name).Set(reflect.ValueOf(d[index]))
			}
		}
	}
	for _, f := range fields {
		domain, ok := domains[f.Name]
		if !ok {
			continue // a field this template does not know: nothing to say
		}
		for _, background := range []int{0, 1} {
			for _, low := range domain {
				for _, high := range domain {
					checked++
					lower, higher := &Configuration{}, &Configuration{}
					if background == 1 {
						fill(lower, 1)
						fill(higher, 2)
					}
					reflect.ValueOf(lower).Elem().FieldByName(f.Name).Set(reflect.ValueOf(low))
					reflect.ValueOf(higher).Elem().FieldByName(f.Name).Set(reflect.ValueOf(high))
					lowerBefore, higherBefore := rcfSnapshot(lower), rcfSnapshot(higher)
					merged := MergeConfigurations(lower, higher)
					if merged == nil {
						report(fmt.Sprintf("MergeConfigurations returned nil for %s session %v, endpoint %v", f.Name, low, high))
						continue
					}
					got := reflect.ValueOf(merged).Elem().FieldByName(f.Name).Interface()
					var expected interface{}
					if list, isList := low.([]string); isList {
						expected = append(append([]string(nil), list...), high.([]string)...)
						if len(expected.([]string)) == 0 && len(got.([]string)) == 0 {
							got = expected
						}
					} else if reflect.ValueOf(high).IsZero() {
						expected = low
					} else {
						expected = high
					}
					if !reflect.DeepEqual(got, expected) {
						report(fmt.Sprintf("MergeConfigurations: field %s is %v for session value %v and endpoint value %v (expected %v)", f.Name, got, low, high, expected))
					}
					// the arguments are not modified, the result's lists are its own
					if list, isList := got.([]string); isList && len(list) > 0 {
						list[0] = "overwritten"
					}
					if lowerBefore != rcfSnapshot(lower) || higherBefore != rcfSnapshot(higher) {
						report(fmt.Sprintf("MergeConfigurations: merging field %s (session %v, endpoint %v) modified an argument or returned a list that aliases it", f.Name, low, high))
					}
				}
			}
		}
	}
	return checked
}

// rcfNoExec checks the executable-bit clause on accepted configurations.
func rcfNoExec(report func(string)) int {
	checked := 0
	permissionModes := []core.PermissionsMode{core.PermissionsMode_PermissionsModeDefault, core.PermissionsMode_PermissionsModePortable, core.PermissionsMode_PermissionsModeManual}
	fileModes := []uint32{0, 0600, 0644, 0700, 0755, 0111, 0601, 0610}
	portable := func(c *Configuration) bool {
		return c.PermissionsMode == core.PermissionsMode_PermissionsModeDefault || c.PermissionsMode == core.PermissionsMode_PermissionsModePortable
	}
	for _, pm := range permissionModes {
		for _, sessionMode := range fileModes {
			session := &Configuration{PermissionsMode: pm, DefaultFileMode: sessionMode}
			checked++
			if session.EnsureValid(false) != nil {
				continue
			}
			if portable(session) && session.DefaultFileMode&0111 != 0 {
				report(fmt.Sprintf("EnsureValid(false) accepts permissions mode %s with default file mode %#o, which has executable bits", pm.Description(), sessionMode))
			}
			for _, endpointMode := range fileModes {
				endpoint := &Configuration{DefaultFileMode: endpointMode}
				checked++
				if endpoint.EnsureValid(true) != nil {
					continue
				}
				merged := MergeConfigurations(session, endpoint)
				if merged == nil || merged.EnsureValid(false) != nil {
					continue
				}
				if portable(merged) && merged.DefaultFileMode&0111 != 0 {
					report(fmt.Sprintf("the effective configuration of session (permissions mode %s, file mode %#o) and endpoint (file mode %#o) is accepted by EnsureValid(false) with default file mode %#o, which has executable bits in portable mode", pm.Description(), sessionMode, endpointMode, merged.DefaultFileMode))
				}
			}
		}
	}
	return checked
}

func TestReplayConfiguration(t *testing.T) {
	var confirmed []string
	seen := map[string]bool{}
	reporter := func(kind string) func(string) {
		return func(what string) {
			if !seen[kind] {
				seen[kind] = true
				confirmed = append(confirmed, what)
			}
		}
	}
	n := rcfRoundTrips(reporter("round trip"))
	n += rcfMerges(reporter("merge"))
	n += rcfNoExec(reporter("noexec"))
	for _, c := range confirmed {
		fmt.Printf("REPLAY-CONFIRMED: %s\n", c)
	}
	if len(confirmed) == 0 {
		fmt.Printf("REPLAY-NOT-REPRODUCED (%d values, field merges and configurations checked)\n", n)
	}
	_ = rcfModel
}
