// pkgdir: pkg/stream
package stream

// Replay for the line splitter (C44 relay path; C47: "the line splitter
// delivers exactly the newline-separated lines with carriage returns
// trimmed"). Family: every byte string of length 0..6 over {a, b, LF, CR},
// written in one piece, split into two writes at every position, and byte by
// byte, followed by a final "z\n" that flushes what is buffered. Oracle: the
// callback receives exactly the LF-terminated segments of the concatenated
// input, in order, each without its LF and without one trailing CR, and every
// Write reports its whole input as written.

import (
	"fmt"
	"strings"
	"testing"
)

const replayModelC44Lines = `{{MODEL_JSON}}`

func TestReplayLineProcessor(t *testing.T) {
	alphabet := "ab\n\r"
	inputs := []string{""}
	for start, l := 0, 0; l < 6; l++ {
		end := len(inputs)
		for _, s := range inputs[start:end] {
			for i := 0; i < len(alphabet); i++ {
				inputs = append(inputs, s+alphabet[i:i+1])
			}
		}
		start = end
	}
	runs := 0
	for _, in := range inputs {
		full := in + "z\n"
		segments := strings.Split(full, "\n")
		segments = segments[:len(segments)-1]
		var want []string
		for _, s := range segments {
			want = append(want, strings.TrimSuffix(s, "\r"))
		}
		var plans [][]string
		for cut := 0; cut <= len(in); cut++ {
			plans = append(plans, []string{in[:cut], in[cut:], "z\n"})
		}
		var single []string
		for i := 0; i < len(full); i++ {
			single = append(single, full[i:i+1])
		}
		plans = append(plans, single)
		for _, plan := range plans {
			runs++
			var got []string
			p := &LineProcessor{Callback: func(line string) { got = append(got, line) }}
			for _, piece := range plan {
				n, err := p.Write([]byte(piece))
				if n != len(piece) || err != nil {
					fmt.Printf("REPLAY-CONFIRMED: writes %q: Write(%q) returned (%d, %v)\n", plan, piece, n, err)
					return
				}
			}
			if fmt.Sprintf("%q", got) != fmt.Sprintf("%q", want) {
				fmt.Printf("REPLAY-CONFIRMED: writes %q delivered the lines %q, the newline-separated lines with carriage returns trimmed are %q\n", plan, got, want)
				return
			}
		}
	}
	fmt.Printf("REPLAY-NOT-REPRODUCED after %d write plans\n", runs)
}
