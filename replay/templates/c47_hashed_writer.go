// pkgdir: pkg/stream
package stream

// Replay for C47, hashing writer: "digests exactly the bytes accepted
// downstream". Search family: sequences of up to 3 writes of 0..4 distinct
// bytes; downstream writers accepting at most 0..4 bytes per call (a short
// write comes with an error). Oracle: after every call the returned count is
// the downstream count and the bytes fed to the hash are exactly the bytes the
// downstream writer accepted so far.

import (
	"bytes"
	"errors"
	"fmt"
	"testing"
)

const replayModelC47Hashed = `{{MODEL_JSON}}`

// c47RecordingHash is a hash.Hash that records what it digests.
type c47RecordingHash struct{ fed []byte }

func (h *c47RecordingHash) Write(p []byte) (int, error) {
	h.fed = append(h.fed, p...)
	return len(p), nil
}
func (h *c47RecordingHash) Sum(b []byte) []byte { return append(b, h.fed...) }
func (h *c47RecordingHash) Reset()              { h.fed = nil }
func (h *c47RecordingHash) Size() int           { return len(h.fed) }
func (h *c47RecordingHash) BlockSize() int      { return 1 }

type c47ShortDown struct {
	got []byte
	max int
}

var errC47Short = errors.New("injected short write")

func (d *c47ShortDown) Write(p []byte) (int, error) {
	if len(p) > d.max {
		d.got = append(d.got, p[:d.max]...)
		return d.max, errC47Short
	}
	d.got = append(d.got, p...)
	return len(p), nil
}

func TestReplayHashedWriter(t *testing.T) {
	runs := 0
	for max := 0; max <= 4; max++ {
		for l1 := 0; l1 <= 4; l1++ {
			for l2 := 0; l2 <= 4; l2++ {
				for l3 := 0; l3 <= 4; l3++ {
					runs++
					down := &c47ShortDown{max: max}
					h := &c47RecordingHash{}
					w := NewHashedWriter(down, h)
					next := byte(0)
					for i, l := range []int{l1, l2, l3} {
						data := make([]byte, l)
						for j := range data {
							next++
							data[j] = next
						}
						accepted := len(down.got)
						n, err := w.Write(data)
						desc := fmt.Sprintf("downstream accepts at most %d bytes per call, write lengths %v, write #%d of %v", max, []int{l1, l2, l3}, i+1, data)
						if n != len(down.got)-accepted || (err != nil) != (n < l) {
							fmt.Printf("REPLAY-CONFIRMED: %s returned (%d, %v) but downstream accepted %d bytes\n", desc, n, err, len(down.got)-accepted)
							return
						}
						if !bytes.Equal(h.fed, down.got) {
							fmt.Printf("REPLAY-CONFIRMED: %s: digested bytes %v differ from the bytes accepted downstream %v\n", desc, h.fed, down.got)
							return
						}
					}
				}
			}
		}
	}
	fmt.Printf("REPLAY-NOT-REPRODUCED after %d runs\n", runs)
}
