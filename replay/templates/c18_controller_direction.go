// pkgdir: pkg/synchronization
package synchronization

// Replay for C18 (controller part): which side's executability is propagated
// to which before reconciliation. The real (*controller).synchronize is run on
// a controller built by hand with two in-memory endpoints: each answers Scan
// with a prepared snapshot (one side preserves executability, the other does
// not), pretends that every file is already staged, and records the Transition
// request it receives (the first request ends the run).
//
// Oracle (property statement): when only one endpoint preserves executable
// bits, a file's executable bit on that endpoint is never changed by
// synchronization while the file exists on both sides, even when its content
// is edited on the other endpoint: a Transition request sent to the preserving
// endpoint that replaces a file by a file keeps that file's executable flag.
//
// Input family: root {f}; the preserving side is alpha or beta; last
// synchronized f has content 1 with or without the flag; the preserving side
// has content 1 with or without the flag; the non-preserving side (flag never
// set, as a scan of such a file system reports) has content 1 or an edited
// content 2; default (two-way-safe) and two-way-resolved mode.

import (
	"context"
	"errors"
	"fmt"
	"io"
	"os"
	"path/filepath"
	"sync"
	"testing"
	"time"

	"github.com/mutagen-io/mutagen/pkg/encoding"
	"github.com/mutagen-io/mutagen/pkg/logging"
	"github.com/mutagen-io/mutagen/pkg/state"
	"github.com/mutagen-io/mutagen/pkg/synchronization/core"
	"github.com/mutagen-io/mutagen/pkg/synchronization/rsync"
)

const rcdModel = `{{MODEL_JSON}}`

type rcdEndpoint struct {
	snapshot *core.Snapshot
	stop     context.CancelFunc
	lock     sync.Mutex
	received []*core.Change
}

// Poll is reached only after a complete cycle (the first cycle skips polling):
// the run ends here when no transition was requested.
func (e *rcdEndpoint) Poll(ctx context.Context) error {
	e.stop()
	<-ctx.Done()
	return nil
}

func (e *rcdEndpoint) Scan(ctx context.Context, ancestor *core.Entry, full bool) (*core.Snapshot, error, bool) {
	return e.snapshot, nil, false
}

func (e *rcdEndpoint) Stage(paths []string, digests [][]byte) ([]string, []*rsync.Signature, rsync.Receiver, error) {
	return nil, nil, nil, nil
}

func (e *rcdEndpoint) Supply(paths []string, signatures []*rsync.Signature, receiver rsync.Receiver) error {
	return errors.New("replay endpoint: nothing to supply")
}

func (e *rcdEndpoint) Transition(ctx context.Context, transitions []*core.Change) ([]*core.Entry, []*core.Problem, bool, error) {
	e.lock.Lock()
	e.received = append(e.received, transitions...)
	e.lock.Unlock()
	e.stop()
	return nil, nil, false, errors.New("replay endpoint: run ends at the first transition request")
}

func (e *rcdEndpoint) Shutdown() error { return nil }

func rcdFile(content byte, executable bool) *core.Entry {
	return &core.Entry{Kind: core.EntryKind_File, Digest: []byte{content, content, content}, Executable: executable}
}

func rcdRoot(f *core.Entry) *core.Entry {
	return &core.Entry{Kind: core.EntryKind_Directory, Contents: map[string]*core.Entry{"f": f}}
}

func rcdShow(e *core.Entry) string {
	if e == nil {
		return "absent"
	}
	if e.Kind != core.EntryKind_File {
		return fmt.Sprintf("kind%d", e.Kind)
	}
	if e.Executable {
		return fmt.Sprintf("file#%d+x", e.Digest[0])
	}
	return fmt.Sprintf("file#%d", e.Digest[0])
}

func TestReplayControllerExecutabilityDirection(t *testing.T) {
	dir, err := os.MkdirTemp("", "c18replay")
	if err != nil {
		t.Fatal(err)
	}
	defer os.RemoveAll(dir)
	runs := 0
	var confirmed []string
	modes := []core.SynchronizationMode{core.SynchronizationMode_SynchronizationModeDefault, core.SynchronizationMode_SynchronizationModeTwoWayResolved}
	for _, mode := range modes {
		for _, preservingIsAlpha := range []bool{true, false} {
			for _, ancestorFlag := range []bool{true, false} {
				for _, preservingFlag := range []bool{true, false} {
					for _, editedContent := range []byte{1, 2} {
						runs++
						ancestor := rcdRoot(rcdFile(1, ancestorFlag))
						preserving := rcdRoot(rcdFile(1, preservingFlag))
						other := rcdRoot(rcdFile(editedContent, false))
						archivePath := filepath.Join(dir, fmt.Sprintf("archive-%d", runs))
						if err := encoding.MarshalAndSaveProtobuf(archivePath, &core.Archive{Content: ancestor}); err != nil {
							t.Fatal(err)
						}
						ctx, cancel := context.WithTimeout(context.Background(), 5*time.Second)
						preservingEndpoint := &rcdEndpoint{stop: cancel, snapshot: &core.Snapshot{Content: preserving, PreservesExecutability: true, Directories: 1, Files: 1}}
						otherEndpoint := &rcdEndpoint{stop: cancel, snapshot: &core.Snapshot{Content: other, PreservesExecutability: false, Directories: 1, Files: 1}}
						alpha, beta := preservingEndpoint, otherEndpoint
						if !preservingIsAlpha {
							alpha, beta = otherEndpoint, preservingEndpoint
						}
						session := &Session{Version: Version_Version1, Configuration: &Configuration{SynchronizationMode: mode}, ConfigurationAlpha: &Configuration{}, ConfigurationBeta: &Configuration{}}
						c := &controller{
							logger:                   logging.NewLogger(logging.LevelDisabled, io.Discard),
							archivePath:              archivePath,
							stateLock:                state.NewTrackingLock(state.NewTracker()),
							session:                  session,
							mergedAlphaConfiguration: &Configuration{},
							mergedBetaConfiguration:  &Configuration{},
							state:                    &State{Session: session, AlphaState: &EndpointState{}, BetaState: &EndpointState{}},
							flushRequests:            make(chan chan error, 1),
						}
						done := make(chan struct{})
						go func() {
							c.synchronize(ctx, alpha, beta)
							close(done)
						}()
						select {
						case <-done:
						case <-time.After(20 * time.Second):
							cancel()
							t.Fatal("synchronize did not return")
						}
						cancel()
						preservingEndpoint.lock.Lock()
						for _, change := range preservingEndpoint.received {
							if change == nil || change.Path != "f" || change.New == nil || change.New.Kind != core.EntryKind_File {
								continue
							}
							if change.New.Executable != preservingFlag {
								side := "alpha"
								if !preservingIsAlpha {
									side = "beta"
								}
								confirmed = append(confirmed, fmt.Sprintf("mode %s, preserving endpoint %s has f = %s, non-preserving endpoint has f = %s, last synchronized f = %s: the preserving endpoint is asked to replace f (%s) by %s, which changes its executable bit although the file exists on both sides",
									mode.Description(), side, rcdShow(preserving.Contents["f"]), rcdShow(other.Contents["f"]), rcdShow(ancestor.Contents["f"]), rcdShow(change.Old), rcdShow(change.New)))
							}
						}
						preservingEndpoint.lock.Unlock()
					}
				}
			}
		}
	}
	for i, c := range confirmed {
		if i < 2 {
			fmt.Printf("REPLAY-CONFIRMED: %s\n", c)
		}
	}
	if len(confirmed) == 0 {
		fmt.Printf("REPLAY-NOT-REPRODUCED (%d synchronization cycles between a preserving and a non-preserving endpoint)\n", runs)
	}
	_ = rcdModel
}
