// pkgdir: pkg/logging
package logging

// Replay for C44 (logger): "Every logged message, including lines relayed from
// agent error output, produces exactly one line in the log with its level and
// scope prefix. Embedded newlines, carriage returns and escape characters can
// never forge additional lines or terminal control sequences." Family searched
// on the real Logger through its exported methods, with a recording sink:
//  - loggers at every level, with scopes "", "a", "a.b"; the ten logging
//    methods (Error..Trace, Errorf..Tracef); messages built from the fragments
//    {text, LF, CR, CR LF, ESC[2J, a forged record prefix} (all sequences of
//    up to three fragments);
//  - Sublogger names containing LF, CR, ESC, blanks, brackets and dots;
//  - the relay writer (Logger.Writer) fed with plain lines, lines carrying a
//    record prefix of each level, inner CR / ESC, trailing CR, several lines
//    in one write and lines split over writes;
//  - 6 goroutines logging through a logger and its subloggers into a sink
//    that dwells in Write (records must reach the sink one at a time), a sink
//    that fails, and two records in sequence.
// Oracle: an enabled record (message level <= logger level) makes exactly one
// sink write, a disabled one none; every sink write is one line: it ends in
// LF, has no other LF, no CR and no ESC, starts with
// "YYYY-MM-DD hh:mm:ss.uuuuuu [L] " with L the record's level letter, then
// "[scope] " if the logger has a scope, then the beginning of the message (up
// to its first LF, CR or ESC).

import (
	"fmt"
	"regexp"
	"strings"
	"sync"
	"sync/atomic"
	"testing"
	"time"
)

const replayModelC44Logger = `{{MODEL_JSON}}`

type c44Record struct {
	writes   [][]byte
	lock     sync.Mutex
	inFlight int32
	overlaps int32
	dwell    time.Duration
	fail     bool
}

func (r *c44Record) Write(p []byte) (int, error) {
	if atomic.AddInt32(&r.inFlight, 1) > 1 {
		atomic.AddInt32(&r.overlaps, 1)
	}
	if r.dwell > 0 {
		time.Sleep(r.dwell)
	}
	r.lock.Lock()
	r.writes = append(r.writes, append([]byte(nil), p...))
	r.lock.Unlock()
	atomic.AddInt32(&r.inFlight, -1)
	if r.fail {
		return len(p), fmt.Errorf("injected sink failure")
	}
	return len(p), nil
}

func (r *c44Record) take() [][]byte {
	r.lock.Lock()
	defer r.lock.Unlock()
	w := r.writes
	r.writes = nil
	return w
}

var c44Prefix = regexp.MustCompile(`^\d{4}-\d{2}-\d{2} \d{2}:\d{2}:\d{2}\.\d{6} \[(.)\] `)

var c44Letters = map[Level]byte{LevelError: 'E', LevelWarn: 'W', LevelInfo: 'I', LevelDebug: 'D', LevelTrace: 'T'}

// c44OneLine checks the shape of one sink write; letter 0 = any level letter.
func c44OneLine(line []byte, letter byte, scope, messageStart string) string {
	s := string(line)
	switch {
	case len(s) == 0 || s[len(s)-1] != '\n':
		return "it does not end in a line feed"
	case strings.Count(s, "\n") != 1:
		return fmt.Sprintf("it contains %d line feeds: more than one line", strings.Count(s, "\n"))
	case strings.Contains(s, "\r"):
		return "it contains a carriage return"
	case strings.Contains(s, "\x1b"):
		return "it contains an escape character"
	}
	m := c44Prefix.FindStringSubmatch(s)
	if m == nil {
		return "it does not start with the timestamp and level prefix"
	}
	if letter != 0 && m[1][0] != letter {
		return fmt.Sprintf("its level letter is %q, the record's level letter is %q", m[1], string(letter))
	}
	rest := s[len(m[0]):]
	if scope != "" {
		if !strings.HasPrefix(rest, "["+scope+"] ") {
			return fmt.Sprintf("the scope prefix [%s] is missing", scope)
		}
		rest = rest[len(scope)+3:]
	}
	if !strings.HasPrefix(rest, messageStart) {
		return fmt.Sprintf("the message part %q does not start with %q", rest, messageStart)
	}
	return ""
}

func c44Start(message string) string {
	if i := strings.IndexAny(message, "\n\r\x1b"); i >= 0 {
		return message[:i]
	}
	return message
}

type c44Method struct {
	name  string
	level Level
	call  func(l *Logger, message string)
}

func c44Methods() []c44Method {
	return []c44Method{
		{"Error", LevelError, func(l *Logger, m string) { l.Error(m) }},
		{"Warn", LevelWarn, func(l *Logger, m string) { l.Warn(m) }},
		{"Info", LevelInfo, func(l *Logger, m string) { l.Info(m) }},
		{"Debug", LevelDebug, func(l *Logger, m string) { l.Debug(m) }},
		{"Trace", LevelTrace, func(l *Logger, m string) { l.Trace(m) }},
		{"Errorf", LevelError, func(l *Logger, m string) { l.Errorf("%s", m) }},
		{"Warnf", LevelWarn, func(l *Logger, m string) { l.Warnf("%s", m) }},
		{"Infof", LevelInfo, func(l *Logger, m string) { l.Infof("%s", m) }},
		{"Debugf", LevelDebug, func(l *Logger, m string) { l.Debugf("%s", m) }},
		{"Tracef", LevelTrace, func(l *Logger, m string) { l.Tracef("%s", m) }},
	}
}

func c44Scoped(sink *c44Record, level Level, scope string) *Logger {
	l := NewLogger(level, sink)
	if scope != "" {
		for _, name := range strings.Split(scope, ".") {
			l = l.Sublogger(name)
		}
	}
	return l
}

func c44Direct() string {
	forged := "2024-01-01 00:00:00.000000 [E] forged"
	fragments := []string{"text", "\n", "\r", "\r\n", "\x1b[2J", forged}
	messages := []string{""}
	for start, l := 0, 0; l < 3; l++ {
		end := len(messages)
		for _, m := range messages[start:end] {
			for _, f := range fragments {
				messages = append(messages, m+f)
			}
		}
		start = end
	}
	for _, scope := range []string{"", "a", "a.b"} {
		for level := LevelDisabled; level <= LevelTrace; level++ {
			sink := &c44Record{}
			logger := c44Scoped(sink, level, scope)
			if logger == nil {
				return fmt.Sprintf("a logger with the valid scope %q could not be created", scope)
			}
			sink.take()
			for _, method := range c44Methods() {
				for _, message := range messages {
					method.call(logger, message)
					writes := sink.take()
					desc := fmt.Sprintf("logger at level %s with scope %q, %s(%q)", level, scope, method.name, message)
					enabled := method.level <= level
					if !enabled && len(writes) != 0 {
						return fmt.Sprintf("%s: the record's level is disabled but %d writes reached the sink: %q", desc, len(writes), writes[0])
					}
					if enabled && len(writes) != 1 {
						return fmt.Sprintf("%s: the record is enabled and made %d sink writes instead of one", desc, len(writes))
					}
					if enabled {
						if bad := c44OneLine(writes[0], c44Letters[method.level], scope, c44Start(message)); bad != "" {
							return fmt.Sprintf("%s wrote %q: %s", desc, writes[0], bad)
						}
					}
				}
			}
		}
	}
	return ""
}

func c44Subloggers() string {
	for _, name := range []string{"a\nb", "a\n2024-01-01 00:00:00.000000 [E] forged", "a\rb", "a\x1b[2Jb", "a b", "a]", "a] [b", "", "a.b", "\n"} {
		sink := &c44Record{}
		parent := NewLogger(LevelTrace, sink)
		sub := parent.Sublogger(name)
		for _, w := range sink.take() {
			if bad := c44OneLine(w, 0, "", ""); bad != "" {
				return fmt.Sprintf("Sublogger(%q) wrote %q: %s", name, w, bad)
			}
		}
		sub.Info("message")
		sub.Sublogger("c").Warnf("%s", "message")
		for _, w := range sink.take() {
			if bad := c44OneLine(w, 0, "", ""); bad != "" {
				return fmt.Sprintf("a record logged through Sublogger(%q) was written as %q: %s", name, w, bad)
			}
		}
	}
	return ""
}

func c44Relay() string {
	prefixed := func(letter byte, text string) string {
		return fmt.Sprintf("2024-01-01 00:00:00.000000 [%c] %s", letter, text)
	}
	type input struct {
		pieces []string
		lines  int // complete lines handed over
	}
	inputs := []input{
		{[]string{"plain line\n"}, 1},
		{[]string{"plain\rwith carriage return\n"}, 1},
		{[]string{"plain with escape \x1b[2J\n"}, 1},
		{[]string{"trailing carriage return\r\n"}, 1},
		{[]string{"one\ntwo\nthree\n"}, 3},
		{[]string{"split ", "over ", "writes\n"}, 1},
		{[]string{"no newline yet"}, 0},
		{[]string{"\n"}, 1},
	}
	for _, letter := range []byte("EWIDT") {
		inputs = append(inputs,
			input{[]string{prefixed(letter, "agent record") + "\n"}, 1},
			input{[]string{prefixed(letter, "agent\rrecord") + "\n"}, 1},
			input{[]string{prefixed(letter, "agent \x1b[2J record") + "\n"}, 1},
			input{[]string{prefixed(letter, "agent record") + "\r\n"}, 1},
			input{[]string{prefixed(letter, "first") + "\n" + prefixed(letter, "second") + "\n"}, 2},
			input{[]string{prefixed(letter, "sp"), "lit\n"}, 1},
		)
	}
	inputs = append(inputs, input{[]string{prefixed('X', "unknown level") + "\n"}, 1}, input{[]string{prefixed('_', "disabled level") + "\n"}, 1})
	for _, scope := range []string{"", "a.b"} {
		for level := LevelDisabled; level <= LevelTrace; level++ {
			for relayLevel := LevelError; relayLevel <= LevelTrace; relayLevel++ {
				for _, in := range inputs {
					sink := &c44Record{}
					logger := c44Scoped(sink, level, scope)
					sink.take()
					w := logger.Writer(relayLevel)
					desc := fmt.Sprintf("logger at level %s with scope %q, Writer(%s) fed %q", level, scope, relayLevel, in.pieces)
					for _, piece := range in.pieces {
						if n, err := w.Write([]byte(piece)); n != len(piece) || err != nil {
							return fmt.Sprintf("%s: Write returned (%d, %v)", desc, n, err)
						}
					}
					writes := sink.take()
					if len(writes) > in.lines {
						return fmt.Sprintf("%s: %d relayed lines produced %d sink writes", desc, in.lines, len(writes))
					}
					for _, line := range writes {
						if bad := c44OneLine(line, 0, scope, ""); bad != "" {
							return fmt.Sprintf("%s wrote %q: %s", desc, line, bad)
						}
					}
					// a plain line is a record of the relay level
					if !strings.HasPrefix(in.pieces[0], "2024-") && in.lines > 0 && relayLevel <= level && len(writes) != in.lines {
						return fmt.Sprintf("%s: %d plain lines at an enabled level produced %d sink writes", desc, in.lines, len(writes))
					}
				}
			}
		}
	}
	return ""
}

func c44Serial() string {
	// two records in sequence, then a failing sink
	{
		sink := &c44Record{}
		logger := NewLogger(LevelInfo, sink)
		done := make(chan struct{})
		go func() { logger.Info("first"); logger.Sublogger("s").Info("second"); logger.Info("third"); close(done) }()
		select {
		case <-done:
		case <-time.After(5 * time.Second):
			return fmt.Sprintf("three records logged in sequence: only %d reached the sink within 5 s (logging blocks)", len(sink.take()))
		}
		if n := len(sink.take()); n != 3 {
			return fmt.Sprintf("three records logged in sequence made %d sink writes", n)
		}
	}
	{
		sink := &c44Record{fail: true}
		logger := NewLogger(LevelInfo, sink)
		logger.Info("record")
		if w := sink.take(); len(w) != 1 {
			return fmt.Sprintf("one record logged to a sink that takes the bytes and reports an error made %d sink writes: the line appears %d times", len(w), len(w))
		}
	}
	sink := &c44Record{dwell: 200 * time.Microsecond}
	root := NewLogger(LevelInfo, sink)
	loggers := []*Logger{root, root, root.Sublogger("a"), root.Sublogger("b"), root.Sublogger("a").Sublogger("c"), root.Sublogger("b")}
	var wg sync.WaitGroup
	for _, l := range loggers {
		wg.Add(1)
		go func(l *Logger) {
			defer wg.Done()
			for i := 0; i < 40; i++ {
				l.Info("record", i)
			}
		}(l)
	}
	finished := make(chan struct{})
	go func() { wg.Wait(); close(finished) }()
	select {
	case <-finished:
	case <-time.After(20 * time.Second):
		return "6 goroutines x 40 records through one logger and its subloggers did not finish within 20 s"
	}
	writes := sink.take()
	if o := atomic.LoadInt32(&sink.overlaps); o > 0 || len(writes) != 240 {
		return fmt.Sprintf("6 goroutines x 40 records through one logger and its subloggers: %d sink writes, %d of them entered the sink while another record was still being written (records can interleave)", len(writes), o)
	}
	return ""
}

func TestReplayLoggerLines(t *testing.T) {
	for _, check := range []func() string{c44Direct, c44Subloggers, c44Relay, c44Serial} {
		var bad string
		func() {
			defer func() {
				if r := recover(); r != nil {
					bad = fmt.Sprintf("panic: %v", r)
				}
			}()
			bad = check()
		}()
		if bad != "" {
			fmt.Printf("REPLAY-CONFIRMED: %s\n", bad)
			return
		}
	}
	fmt.Printf("REPLAY-NOT-REPRODUCED (direct records, sublogger names, relayed lines, serialisation)\n")
}
