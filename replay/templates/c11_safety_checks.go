// pkgdir: pkg/synchronization
package synchronization

// Replay for C11's three safety predicates (the halting decisions of the
// controller rest on them). Oracles from the statement: a session must not
// propagate "the deletion of a synchronization root, a change of a root's
// type, or the emptying of a root that previously held at least two entries
// on only one side". Families searched on the real functions:
//  - oneEndpointEmptiedRoot: ancestor, alpha and beta each ranging over nil, a
//    file, a symbolic link and directories with 0..3 entries (all 343
//    combinations); expected true exactly when all three are directories, the
//    ancestor has at least two entries and exactly one of alpha/beta has none;
//  - containsRootDeletion / containsRootTypeChange: every list of 0..3 changes
//    from a pool of 10 (root and non-root deletions, creations, type changes,
//    same-kind modifications); expected true exactly when some change at the
//    root path "" goes from an entry to nothing / from an entry to an entry of
//    another kind.

import (
	"fmt"
	"testing"

	"github.com/mutagen-io/mutagen/pkg/synchronization/core"
)

const replayModelC11 = `{{MODEL_JSON}}`

func c11Dir(n int) *core.Entry {
	e := &core.Entry{Kind: core.EntryKind_Directory}
	if n > 0 {
		e.Contents = map[string]*core.Entry{}
		for i := 0; i < n; i++ {
			e.Contents[fmt.Sprintf("f%d", i)] = &core.Entry{Kind: core.EntryKind_File, Digest: []byte{byte(i)}}
		}
	}
	return e
}

func c11Describe(e *core.Entry) string {
	switch {
	case e == nil:
		return "nothing"
	case e.Kind == core.EntryKind_Directory:
		return fmt.Sprintf("directory with %d entries", len(e.Contents))
	case e.Kind == core.EntryKind_File:
		return "file"
	case e.Kind == core.EntryKind_SymbolicLink:
		return "symbolic link"
	}
	return e.Kind.String()
}

func TestReplaySafetyChecks(t *testing.T) {
	roots := []*core.Entry{nil, {Kind: core.EntryKind_File, Digest: []byte{1}}, {Kind: core.EntryKind_SymbolicLink, Target: "t"},
		c11Dir(0), c11Dir(1), c11Dir(2), c11Dir(3)}
	isDir := func(e *core.Entry) bool { return e != nil && e.Kind == core.EntryKind_Directory }
	runs := 0
	for _, ancestor := range roots {
		for _, alpha := range roots {
			for _, beta := range roots {
				runs++
				want := isDir(ancestor) && isDir(alpha) && isDir(beta) && len(ancestor.Contents) >= 2 &&
					(len(alpha.Contents) == 0) != (len(beta.Contents) == 0)
				if got := oneEndpointEmptiedRoot(ancestor, alpha, beta); got != want {
					fmt.Printf("REPLAY-CONFIRMED: oneEndpointEmptiedRoot(ancestor: %s, alpha: %s, beta: %s) = %v, want %v (a root that held at least two entries emptied on exactly one side)\n",
						c11Describe(ancestor), c11Describe(alpha), c11Describe(beta), got, want)
					return
				}
			}
		}
	}
	file := &core.Entry{Kind: core.EntryKind_File, Digest: []byte{1}}
	file2 := &core.Entry{Kind: core.EntryKind_File, Digest: []byte{2}}
	link := &core.Entry{Kind: core.EntryKind_SymbolicLink, Target: "t"}
	dir := c11Dir(2)
	pool := []*core.Change{
		{Path: "", Old: dir, New: nil},
		{Path: "", Old: file, New: nil},
		{Path: "", Old: nil, New: dir},
		{Path: "", Old: dir, New: file},
		{Path: "", Old: file, New: link},
		{Path: "", Old: file, New: file2},
		{Path: "", Old: dir, New: c11Dir(0)},
		{Path: "a", Old: dir, New: nil},
		{Path: "a", Old: file, New: dir},
		{Path: "a/b", Old: nil, New: file},
	}
	describe := func(list []*core.Change) string {
		s := "["
		for i, c := range list {
			if i > 0 {
				s += ", "
			}
			s += fmt.Sprintf("{path %q: %s -> %s}", c.Path, c11Describe(c.Old), c11Describe(c.New))
		}
		return s + "]"
	}
	var lists [][]*core.Change
	lists = append(lists, nil)
	for _, a := range pool {
		lists = append(lists, []*core.Change{a})
	}
	for _, a := range pool {
		for _, b := range pool {
			lists = append(lists, []*core.Change{a, b})
		}
	}
	for _, a := range pool {
		for _, b := range pool {
			for _, c := range pool {
				lists = append(lists, []*core.Change{a, b, c})
			}
		}
	}
	for _, list := range lists {
		runs++
		wantDeletion, wantTypeChange := false, false
		for _, c := range list {
			if c.Path == "" && c.Old != nil && c.New == nil {
				wantDeletion = true
			}
			if c.Path == "" && c.Old != nil && c.New != nil && c.Old.Kind != c.New.Kind {
				wantTypeChange = true
			}
		}
		if got := containsRootDeletion(list); got != wantDeletion {
			fmt.Printf("REPLAY-CONFIRMED: containsRootDeletion(%s) = %v, want %v\n", describe(list), got, wantDeletion)
			return
		}
		if got := containsRootTypeChange(list); got != wantTypeChange {
			fmt.Printf("REPLAY-CONFIRMED: containsRootTypeChange(%s) = %v, want %v\n", describe(list), got, wantTypeChange)
			return
		}
	}
	fmt.Printf("REPLAY-NOT-REPRODUCED after %d evaluations\n", runs)
}
