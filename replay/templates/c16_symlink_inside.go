// pkgdir: pkg/synchronization/core
package core

// Replay for C16 (portable symbolic links stay inside the root). The solver's
// model is over the abstract component sequence of the target, so the replay
// searches the corresponding concrete family on the real function: every
// target built from the tokens {name, ".", "..", ""} joined by "/" up to 5
// components, at link depths 0..3, and compares acceptance with POSIX lexical
// resolution (empty component and "." keep the depth, ".." decreases it).

import (
	"fmt"
	"strings"
	"testing"
)

const replayModel = `{{MODEL_JSON}}`

func TestReplaySymlinkInside(t *testing.T) {
	tokens := []string{"a", ".", "..", ""}
	paths := []string{"l", "d/l", "d/e/l", "d/e/f/l"}
	var gen func(n int, cur []string)
	found := ""
	gen = func(n int, cur []string) {
		if found != "" {
			return
		}
		if len(cur) > 0 {
			target := strings.Join(cur, "/")
			if target != "" && target[0] != '/' {
				for _, p := range paths {
					depth := strings.Count(p, "/")
					escapes := false
					d := depth
					for _, c := range cur {
						switch c {
						case "", ".":
						case "..":
							d--
						default:
							d++
						}
						if d < 0 {
							escapes = true
						}
					}
					_, err := normalizeSymbolicLinkAndEnsurePortable(p, target)
					if err == nil && escapes {
						found = fmt.Sprintf("link at %q with target %q is accepted but resolves outside the root", p, target)
						return
					}
				}
			}
		}
		if n == 0 {
			return
		}
		for _, tk := range tokens {
			gen(n-1, append(append([]string{}, cur...), tk))
		}
	}
	gen(5, nil)
	if found != "" {
		fmt.Println("REPLAY-CONFIRMED: " + found)
	} else {
		fmt.Println("REPLAY-NOT-REPRODUCED")
	}
}
