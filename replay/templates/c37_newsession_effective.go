// pkgdir: pkg/synchronization
package synchronization

// Replay for C37 (newSession:effective): searches the product of small value
// domains of the fields involved in the effective-configuration validation for
// a session configuration and an endpoint-specific configuration that are each
// accepted by validation while the merged configuration is rejected, and then
// creates a paused session with them through the real newSession.

import (
	"context"
	"fmt"
	"os"
	"testing"

	"github.com/mutagen-io/mutagen/pkg/logging"
	"github.com/mutagen-io/mutagen/pkg/state"
	"github.com/mutagen-io/mutagen/pkg/synchronization/core"
	"github.com/mutagen-io/mutagen/pkg/url"
)

const replayModel = `{{MODEL_JSON}}`

func TestReplayNewSessionEffective(t *testing.T) {
	dir, err := os.MkdirTemp("", "c37replay")
	if err != nil {
		t.Fatal(err)
	}
	defer os.RemoveAll(dir)
	os.Setenv("MUTAGEN_DATA_DIRECTORY", dir)
	permModes := []core.PermissionsMode{core.PermissionsMode_PermissionsModeDefault, core.PermissionsMode_PermissionsModePortable, core.PermissionsMode_PermissionsModeManual}
	fileModes := []uint32{0, 0o644, 0o755, 0o600, 0o111}
	for _, pm := range permModes {
		for _, sfm := range fileModes {
			for _, efm := range fileModes {
				session := &Configuration{PermissionsMode: pm, DefaultFileMode: sfm}
				endpoint := &Configuration{DefaultFileMode: efm}
				if session.EnsureValid(false) != nil || endpoint.EnsureValid(true) != nil {
					continue
				}
				merged := MergeConfigurations(session, endpoint)
				if merged.EnsureValid(false) == nil {
					continue
				}
				alpha := &url.URL{Kind: url.Kind_Synchronization, Protocol: url.Protocol_Local, Path: dir + "/alpha"}
				beta := &url.URL{Kind: url.Kind_Synchronization, Protocol: url.Protocol_Local, Path: dir + "/beta"}
				c, err := newSession(context.Background(), logging.NewLogger(logging.LevelDisabled, os.Stderr), state.NewTracker(),
					"sync_0123456789abcdefghijklmnopqrstuvwxyzABCDEF", alpha, beta, session, endpoint, &Configuration{}, "", nil, true, "")
				if err == nil && c != nil {
					fmt.Printf("REPLAY-CONFIRMED: session permissions mode %v, session DefaultFileMode %#o, alpha DefaultFileMode %#o: both accepted by validation, newSession created the session, but the effective alpha configuration is rejected by EnsureValid(false): %v\n",
						pm, sfm, efm, merged.EnsureValid(false))
					c.halt(context.Background(), controllerHaltModeTerminate, "", false)
					return
				}
			}
		}
	}
	fmt.Println("REPLAY-NOT-REPRODUCED")
}
