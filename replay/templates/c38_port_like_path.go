// pkgdir: pkg/url
package url

// Replay for C38 (round trip). An SCP-style SSH URL with an explicit zero port
// and a path that itself begins with digits and a colon parses to port 0 and
// that path; formatting leaves a zero port out, so the text that comes back
// puts the path's digit prefix in port position.

import (
	"fmt"
	"testing"
)

const replayModel = `{{MODEL_JSON}}`

func TestReplayPortLikePath(t *testing.T) {
	confirmed := false
	for _, raw := range []string{"h:0:22:x", "u@h.example.org:0:8080:srv", "h:0::x", "h:0:0:x"} {
		u, err := Parse(raw, Kind_Synchronization, true)
		if err != nil || u.EnsureValid() != nil {
			continue
		}
		text := u.Format("")
		u2, err := Parse(text, Kind_Synchronization, true)
		if err != nil {
			fmt.Printf("REPLAY-CONFIRMED: %q parses to port %d path %q, is formatted as %q, which does not parse: %v\n", raw, u.Port, u.Path, text, err)
			confirmed = true
		} else if !u.Equal(u2) {
			fmt.Printf("REPLAY-CONFIRMED: %q parses to port %d path %q, is formatted as %q, which parses to port %d path %q\n", raw, u.Port, u.Path, text, u2.Port, u2.Path)
			confirmed = true
		}
	}
	if !confirmed {
		fmt.Println("REPLAY-NOT-REPRODUCED")
	} else {
		t.Fail()
	}
}
