// pkgdir: pkg/synchronization/core
package core

// Replay for C07 (entry-tree helpers: Equal, Copy, synchronizable, Count,
// Diff, Apply). The contracts are one level deep and quantified over all
// trees, so the replay SEARCHES a small family of valid trees and compares the
// real functions with oracles written from the property statement, using its
// own structural equality, clone, filter and counter:
//
//   - Apply(a, Diff(a, b)) is structurally equal to b and neither a nor b is
//     changed by the two calls (Apply works on a copy); Diff(a, a) is empty;
//   - Equal(a, b, deep) is structural equality (shallow: the node only);
//   - every kind of Copy is structurally equal to the original (a slim copy:
//     the node without contents) and stays so when the original is changed
//     afterwards - everywhere for a deep copy, in every directory and phantom
//     directory node for a leaf-preserving copy, in the root's content map for
//     a shallow copy;
//   - synchronizable() is the tree without its untracked, problematic and
//     phantom sub-trees (nil if the root is one);
//   - Count() is the number of entries of that filtered tree.
//
// Input family: names {a, b}; leaves: two file digests, an executable file,
// two link targets, untracked, problematic, empty directory, empty phantom
// directory. T1 = nil, every leaf, every directory and phantom directory of up
// to two leaves (210 trees); T2 = directory {a: t} and {a: t, b: file} for t in
// T1 (depth 2, 418 trees). Unary checks on T1 and T2, pair checks on all of
// (T1 u T2) x (T1 u T2) within the time budget, T1 x T1 first.

import (
	"bytes"
	"fmt"
	"sort"
	"strings"
	"testing"
	"time"
)

const retModel = `{{MODEL_JSON}}`

func retLeaves() []*Entry {
	return []*Entry{
		nil,
		{Kind: EntryKind_File, Digest: []byte{1, 1}},
		{Kind: EntryKind_File, Digest: []byte{2, 2}},
		{Kind: EntryKind_File, Digest: []byte{1, 1}, Executable: true},
		{Kind: EntryKind_SymbolicLink, Target: "t1"},
		{Kind: EntryKind_SymbolicLink, Target: "t2"},
		{Kind: EntryKind_Untracked},
		{Kind: EntryKind_Problematic, Problem: "unreadable"},
		{Kind: EntryKind_Directory},
		{Kind: EntryKind_PhantomDirectory},
	}
}

func retT1() []*Entry {
	out := retLeaves()
	for _, kind := range []EntryKind{EntryKind_Directory, EntryKind_PhantomDirectory} {
		for _, a := range retLeaves() {
			for _, b := range retLeaves() {
				if a == nil && b == nil {
					continue // the empty directory is a leaf
				}
				d := &Entry{Kind: kind, Contents: map[string]*Entry{}}
				if a != nil {
					d.Contents["a"] = a
				}
				if b != nil {
					d.Contents["b"] = b
				}
				out = append(out, d)
			}
		}
	}
	return out
}

func retT2() []*Entry {
	var out []*Entry
	for _, t := range retT1() {
		if t == nil {
			continue
		}
		out = append(out, &Entry{Kind: EntryKind_Directory, Contents: map[string]*Entry{"a": t}})
		out = append(out, &Entry{Kind: EntryKind_Directory, Contents: map[string]*Entry{"a": t, "b": {Kind: EntryKind_File, Digest: []byte{1, 1}}}})
	}
	return out
}

func retNodeEqual(a, b *Entry) bool {
	if a == nil || b == nil {
		return a == nil && b == nil
	}
	return a.Kind == b.Kind && a.Executable == b.Executable && bytes.Equal(a.Digest, b.Digest) && a.Target == b.Target && a.Problem == b.Problem
}

func retTreeEqual(a, b *Entry) bool {
	if !retNodeEqual(a, b) {
		return false
	}
	if a == nil {
		return true
	}
	if len(a.Contents) != len(b.Contents) {
		return false
	}
	for name, child := range a.Contents {
		other, ok := b.Contents[name]
		if !ok || !retTreeEqual(child, other) {
			return false
		}
	}
	return true
}

func retClone(e *Entry) *Entry {
	if e == nil {
		return nil
	}
	c := &Entry{Kind: e.Kind, Executable: e.Executable, Digest: e.Digest, Target: e.Target, Problem: e.Problem}
	if e.Contents != nil {
		c.Contents = make(map[string]*Entry, len(e.Contents))
		for name, child := range e.Contents {
			c.Contents[name] = retClone(child)
		}
	}
	return c
}

func retTrackedKind(k EntryKind) bool {
	return k == EntryKind_Directory || k == EntryKind_File || k == EntryKind_SymbolicLink
}

// retFilter is the oracle for synchronizable().
func retFilter(e *Entry) *Entry {
	if e == nil || !retTrackedKind(e.Kind) {
		return nil
	}
	c := &Entry{Kind: e.Kind, Executable: e.Executable, Digest: e.Digest, Target: e.Target, Problem: e.Problem}
	for name, child := range e.Contents {
		if f := retFilter(child); f != nil {
			if c.Contents == nil {
				c.Contents = map[string]*Entry{}
			}
			c.Contents[name] = f
		}
	}
	return c
}

func retCount(e *Entry) uint64 {
	if e == nil {
		return 0
	}
	n := uint64(1)
	for _, child := range e.Contents {
		n += retCount(child)
	}
	return n
}

func retShow(e *Entry) string {
	if e == nil {
		return "nil"
	}
	var s string
	switch e.Kind {
	case EntryKind_File:
		s = fmt.Sprintf("file#%d", e.Digest[0])
		if e.Executable {
			s += "x"
		}
		return s
	case EntryKind_SymbolicLink:
		return "link->" + e.Target
	case EntryKind_Untracked:
		return "untracked"
	case EntryKind_Problematic:
		return "problematic(" + e.Problem + ")"
	case EntryKind_Directory:
		s = "dir"
	case EntryKind_PhantomDirectory:
		s = "phantom"
	default:
		s = fmt.Sprintf("kind%d", e.Kind)
	}
	if e.Executable {
		s += "(executable)"
	}
	if e.Target != "" {
		s += "(target " + e.Target + ")"
	}
	names := make([]string, 0, len(e.Contents))
	for n := range e.Contents {
		names = append(names, n)
	}
	sort.Strings(names)
	parts := make([]string, 0, len(names))
	for _, n := range names {
		parts = append(parts, n+":"+retShow(e.Contents[n]))
	}
	return s + "{" + strings.Join(parts, " ") + "}"
}

// retDisturb changes the tree in place: everywhere (all == true) or only in
// the content maps of directory and phantom directory nodes.
func retDisturb(e *Entry, all bool) {
	if e == nil {
		return
	}
	for _, child := range e.Contents {
		retDisturb(child, all)
	}
	if all {
		e.Executable = !e.Executable
		e.Target += "-changed"
		e.Problem += "-changed"
		e.Digest = []byte{9, 9, 9}
	}
	if e.Kind == EntryKind_Directory || e.Kind == EntryKind_PhantomDirectory {
		for name := range e.Contents {
			delete(e.Contents, name)
		}
		if e.Contents == nil {
			e.Contents = map[string]*Entry{}
		}
		e.Contents["zz"] = &Entry{Kind: EntryKind_File, Digest: []byte{7}}
	}
}

func retUnary(e *Entry) string {
	// Diff with itself.
	if changes := Diff(e, e); len(changes) != 0 {
		return fmt.Sprintf("Diff(t, t) has %d changes for t = %s", len(changes), retShow(e))
	}
	// Equal with itself and with a clone.
	if !e.Equal(retClone(e), true) || !e.Equal(retClone(e), false) {
		return fmt.Sprintf("Equal reports t = %s different from an identical tree", retShow(e))
	}
	// Copies.
	behaviors := []struct {
		behavior EntryCopyBehavior
		name     string
	}{
		{EntryCopyBehaviorDeep, "deep"},
		{EntryCopyBehaviorDeepPreservingLeaves, "leaf-preserving"},
		{EntryCopyBehaviorShallow, "shallow"},
		{EntryCopyBehaviorSlim, "slim"},
	}
	for _, b := range behaviors {
		original := retClone(e)
		copied := original.Copy(b.behavior)
		expected := retClone(e)
		if b.behavior == EntryCopyBehaviorSlim && expected != nil {
			expected.Contents = nil
		}
		if !retTreeEqual(copied, expected) {
			return fmt.Sprintf("the %s copy of %s is %s", b.name, retShow(e), retShow(copied))
		}
		if b.behavior != EntryCopyBehaviorSlim && !copied.Equal(original, true) {
			return fmt.Sprintf("the %s copy of %s does not compare Equal to it", b.name, retShow(e))
		}
		// Later changes to the original.
		switch b.behavior {
		case EntryCopyBehaviorDeep:
			retDisturb(original, true)
		case EntryCopyBehaviorDeepPreservingLeaves:
			retDisturb(original, false)
		case EntryCopyBehaviorShallow:
			if original != nil && original.Contents != nil {
				for name := range original.Contents {
					delete(original.Contents, name)
				}
				original.Contents["zz"] = &Entry{Kind: EntryKind_File, Digest: []byte{7}}
			}
		}
		if !retTreeEqual(copied, expected) {
			return fmt.Sprintf("the %s copy of %s became %s when the original was changed afterwards to %s", b.name, retShow(e), retShow(copied), retShow(original))
		}
	}
	// Filter and count.
	pristine := retClone(e)
	filtered := pristine.synchronizable()
	if expected := retFilter(e); !retTreeEqual(filtered, expected) {
		return fmt.Sprintf("synchronizable() of %s is %s, the tree without untracked, problematic and phantom sub-trees is %s", retShow(e), retShow(filtered), retShow(expected))
	}
	if !retTreeEqual(pristine, e) {
		return fmt.Sprintf("synchronizable() changed its receiver %s into %s", retShow(e), retShow(pristine))
	}
	if got, expected := e.Count(), retCount(retFilter(e)); got != expected {
		return fmt.Sprintf("Count() of %s is %d, it has %d synchronizable entries", retShow(e), got, expected)
	}
	return ""
}

func retPair(a, b *Entry) string {
	if got, expected := a.Equal(b, true), retTreeEqual(a, b); got != expected {
		return fmt.Sprintf("Equal(deep) is %v for %s and %s", got, retShow(a), retShow(b))
	}
	if got, expected := a.Equal(b, false), retNodeEqual(a, b); got != expected {
		return fmt.Sprintf("Equal(shallow) is %v for %s and %s", got, retShow(a), retShow(b))
	}
	base, target := retClone(a), retClone(b)
	changes := Diff(base, target)
	result, err := Apply(base, changes)
	if err != nil {
		return fmt.Sprintf("Apply(a, Diff(a, b)) fails with %q for a = %s, b = %s", err.Error(), retShow(a), retShow(b))
	}
	if !retTreeEqual(result, b) {
		return fmt.Sprintf("Apply(a, Diff(a, b)) is %s for a = %s, b = %s (%d changes)", retShow(result), retShow(a), retShow(b), len(changes))
	}
	if !retTreeEqual(base, a) {
		return fmt.Sprintf("Apply(a, Diff(a, b)) changed a itself from %s to %s (b = %s)", retShow(a), retShow(base), retShow(b))
	}
	if !retTreeEqual(target, b) {
		return fmt.Sprintf("Apply(a, Diff(a, b)) changed b itself from %s to %s (a = %s)", retShow(b), retShow(target), retShow(a))
	}
	return ""
}

func TestReplayEntryTree(t *testing.T) {
	start := time.Now()
	// (The test files of the package turn on Equal's test-only problem
	// wildcard "*"; no tree of the family uses that problem text.)

	t1, t2 := retT1(), retT2()
	all := append(append([]*Entry{}, t1...), t2...)
	var confirmed []string
	seen := map[string]bool{}
	report := func(what string) {
		key := what
		if i := strings.IndexAny(what, " ("); i > 0 {
			key = what[:i]
		}
		if what != "" && !seen[key] && len(confirmed) < 4 {
			seen[key] = true
			confirmed = append(confirmed, what)
		}
	}
	evaluated := 0
	for _, e := range all {
		evaluated++
		report(retUnary(e))
	}
	pairs := func(as, bs []*Entry) {
		for _, a := range as {
			if time.Since(start) > 15*time.Second {
				return
			}
			for _, b := range bs {
				evaluated++
				report(retPair(a, b))
			}
		}
	}
	pairs(t1, t1)
	pairs(t2, t2)
	pairs(t1, t2)
	pairs(t2, t1)
	for _, c := range confirmed {
		fmt.Printf("REPLAY-CONFIRMED: %s\n", c)
	}
	if len(confirmed) == 0 {
		fmt.Printf("REPLAY-NOT-REPRODUCED (%d trees and pairs of trees checked in %v)\n", evaluated, time.Since(start).Round(time.Millisecond))
	}
	_ = retModel
}
