// pkgdir: pkg/synchronization/endpoint/local
package local

// Replay for C02 (read-only alpha endpoint). The oracle is the property
// statement: in the one-way modes the alpha endpoint never accepts a staging
// or a transition request, and its root is not modified by such a request. The
// replay creates a real local alpha endpoint over a temporary root for each
// one-way mode (the mode named by the solver's model first, when there is
// one), scans it, sends one non-empty Stage request and one Transition request
// (create a directory, delete the existing file) and compares the root before
// and after.

import (
	"context"
	"encoding/json"
	"fmt"
	"io"
	"os"
	"path/filepath"
	"sort"
	"strconv"
	"strings"
	"testing"

	"github.com/mutagen-io/mutagen/pkg/logging"
	"github.com/mutagen-io/mutagen/pkg/synchronization"
	"github.com/mutagen-io/mutagen/pkg/synchronization/core"
)

const rroModel = `{{MODEL_JSON}}`

func rroListing(root string) string {
	var names []string
	filepath.Walk(root, func(path string, info os.FileInfo, err error) error {
		if err != nil {
			return nil
		}
		rel, _ := filepath.Rel(root, path)
		entry := rel + ":" + info.Mode().String()
		if info.Mode().IsRegular() {
			data, _ := os.ReadFile(path)
			entry += ":" + string(data)
		}
		names = append(names, entry)
		return nil
	})
	sort.Strings(names)
	return strings.Join(names, " ")
}

func TestReplayReadOnlyAlphaEndpoint(t *testing.T) {
	modes := []core.SynchronizationMode{
		core.SynchronizationMode_SynchronizationModeOneWaySafe,
		core.SynchronizationMode_SynchronizationModeOneWayReplica,
	}
	var model map[string]string
	_ = json.Unmarshal([]byte(rroModel), &model)
	for name, value := range model {
		if v, err := strconv.Atoi(value); err == nil && strings.Contains(strings.ToLower(name), "mode") && v == int(core.SynchronizationMode_SynchronizationModeOneWayReplica) {
			modes[0], modes[1] = modes[1], modes[0]
			break
		}
	}

	confirmed := false
	for _, mode := range modes {
		dir, err := os.MkdirTemp("", "c02replay")
		if err != nil {
			t.Fatal(err)
		}
		defer os.RemoveAll(dir)
		os.Setenv("MUTAGEN_DATA_DIRECTORY", filepath.Join(dir, "data"))
		root := filepath.Join(dir, "root")
		os.Mkdir(root, 0700)
		os.WriteFile(filepath.Join(root, "f"), []byte("source"), 0600)
		ep, err := NewEndpoint(logging.NewLogger(logging.LevelDisabled, io.Discard), root, "replay-session-"+strconv.Itoa(int(mode)),
			synchronization.Version_Version1, &synchronization.Configuration{SynchronizationMode: mode, WatchMode: synchronization.WatchMode_WatchModeNoWatch}, true)
		if err != nil {
			t.Fatal(err)
		}
		snapshot, err, _ := ep.Scan(context.Background(), nil, true)
		if err != nil {
			ep.Shutdown()
			t.Fatal("scan failed:", err)
		}
		before := rroListing(root)

		// A staging request for one new file.
		paths, signatures, receiver, stageErr := ep.Stage([]string{"g"}, [][]byte{{1, 2, 3, 4, 5, 6, 7, 8, 9, 10, 11, 12, 13, 14, 15, 16, 17, 18, 19, 20}})
		if stageErr == nil {
			fmt.Printf("REPLAY-CONFIRMED: alpha endpoint in mode %s accepted Stage([\"g\"]) (returned %d paths, %d signatures, receiver %v, nil error)\n", mode.Description(), len(paths), len(signatures), receiver != nil)
			confirmed = true
		}

		// A transition request that creates a directory and deletes the file.
		var existing *core.Entry
		if snapshot != nil && snapshot.Content != nil {
			existing = snapshot.Content.Contents["f"]
		}
		transitions := []*core.Change{{Path: "newdir", New: &core.Entry{Kind: core.EntryKind_Directory}}}
		if existing != nil {
			transitions = append(transitions, &core.Change{Path: "f", Old: existing})
		}
		results, problems, _, transitionErr := ep.Transition(context.Background(), transitions)
		after := rroListing(root)
		if transitionErr == nil {
			fmt.Printf("REPLAY-CONFIRMED: alpha endpoint in mode %s accepted Transition(create \"newdir\", delete \"f\") (%d results, %d problems, nil error); root before {%s}, after {%s}\n", mode.Description(), len(results), len(problems), before, after)
			confirmed = true
		} else if before != after {
			fmt.Printf("REPLAY-CONFIRMED: alpha endpoint in mode %s modified its root on a refused request: before {%s}, after {%s}\n", mode.Description(), before, after)
			confirmed = true
		}
		ep.Shutdown()
		if confirmed {
			return
		}
	}
	fmt.Println("REPLAY-NOT-REPRODUCED")
}
