// pkgdir: pkg/agent/transport/ssh
package ssh

// Replay for C36 (EnsureValid:nooption). The failed obligation says that a
// URL accepted by EnsureValid has no user, host or container name starting
// with '-'. On the real code: parse such URLs, validate them, build the real
// ssh argument vector and look for the URL-derived word in option position
// (before any "--").

import (
	"fmt"
	"strings"
	"testing"

	"github.com/mutagen-io/mutagen/pkg/url"
)

const replayModel = `{{MODEL_JSON}}`

func TestReplayOptionInjection(t *testing.T) {
	confirmed := false
	for _, raw := range []string{
		"-oProxyCommand=evil:/srv",
		"-oProxyCommand=x@example.org:/srv",
		"docker://--privileged/srv",
	} {
		u, err := url.Parse(raw, url.Kind_Synchronization, true)
		if err != nil {
			continue
		}
		if err := u.EnsureValid(); err != nil {
			continue
		}
		if u.Protocol == url.Protocol_Docker {
			if strings.HasPrefix(u.Host, "-") {
				fmt.Printf("REPLAY-CONFIRMED: %q is accepted by Parse and EnsureValid with container name %q (an option word for docker exec)\n", raw, u.Host)
				confirmed = true
			}
			continue
		}
		tr, err := NewTransport(u.User, u.Host, uint16(u.Port), "")
		if err != nil {
			continue
		}
		cmd, err := tr.Command("mutagen-agent synchronizer")
		if err != nil {
			continue
		}
		for _, a := range cmd.Args[1:] {
			if a == "--" {
				break
			}
			if strings.HasPrefix(a, "-oProxyCommand=") {
				fmt.Printf("REPLAY-CONFIRMED: %q is accepted by Parse and EnsureValid (user %q, host %q); ssh argv %q has the URL-derived word %q in option position\n", raw, u.User, u.Host, cmd.Args, a)
				confirmed = true
			}
		}
	}
	if !confirmed {
		fmt.Println("REPLAY-NOT-REPRODUCED")
	}
}
