// pkgdir: pkg/synchronization/rsync
package rsync

// Replay for C20 error-propagation obligations of the Deltify family. The
// solver's model for these obligations is a control-flow class (a transmitter
// failure at some operation while a particular path is taken), so the replay
// searches the corresponding small input family on the real code: bases and
// targets built from four distinct blocks and literal fragments, every
// failure index, one-off and persistent failures, two data-operation sizes.
// It confirms iff some run has a failed transmit and a nil result.

import (
	"bytes"
	"errors"
	"fmt"
	"testing"
)

// model values of the failed obligation (informational)
const replayModel = `{{MODEL_JSON}}`

func TestReplayDeltifyErrprop(t *testing.T) {
	blocks := []string{"aaaa", "bbbb", "cccc", "dddd"}
	bases := []string{"", "aaaabbbbccccdddd", "aaaabbbbccccdd"}
	frags := []string{"", "x", "xyz", "xyzxyzx"}
	var targets []string
	// sequences of up to 3 blocks with optional literal fragments between them
	for _, f0 := range frags {
		targets = append(targets, f0)
		for i := range blocks {
			for _, f1 := range frags[:3] {
				targets = append(targets, f0+blocks[i]+f1)
				for j := range blocks {
					for _, f2 := range frags[:2] {
						targets = append(targets, f0+blocks[i]+f1+blocks[j]+f2)
						targets = append(targets, f0+blocks[i]+f1+blocks[j]+f2+"dd")
					}
				}
			}
		}
	}
	runs := 0
	for _, base := range bases {
		for _, target := range targets {
			for _, maxOp := range []uint64{0, 3} {
				// count operations of a failure-free run
				e := NewEngine()
				sig := e.BytesSignature([]byte(base), 4)
				n := 0
				if err := e.Deltify(bytes.NewReader([]byte(target)), sig, maxOp, func(*Operation) error { n++; return nil }); err != nil {
					t.Fatalf("unexpected error without failure: %v", err)
				}
				for k := 0; k < n; k++ {
					for _, persistent := range []bool{false, true} {
						e := NewEngine()
						sig := e.BytesSignature([]byte(base), 4)
						calls, failed := 0, false
						tx := func(*Operation) error {
							calls++
							if calls-1 == k || (persistent && calls-1 > k) {
								failed = true
								return errors.New("injected transmit failure")
							}
							return nil
						}
						err := e.Deltify(bytes.NewReader([]byte(target)), sig, maxOp, tx)
						runs++
						if failed && err == nil {
							fmt.Printf("REPLAY-CONFIRMED: base=%q target=%q maxDataOpSize=%d failAt=%d persistent=%v: a transmit failed but Deltify returned nil\n", base, target, maxOp, k, persistent)
							return
						}
					}
				}
			}
		}
	}
	fmt.Printf("REPLAY-NOT-REPRODUCED after %d runs\n", runs)
}
