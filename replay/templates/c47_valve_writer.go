// pkgdir: pkg/stream
package stream

// Replay for C47, valve writer: "a shut valve discards". Search family: 0..3
// writes of 0..3 bytes before Shut, then writes of 0..3 bytes after it (and a
// second Shut). Oracle: an open valve passes every write through unchanged; a
// shut valve makes no downstream call and reports the whole buffer as written.

import (
	"fmt"
	"testing"
)

const replayModelC47Valve = `{{MODEL_JSON}}`

type c47ValveDown struct{ calls, bytes int }

func (d *c47ValveDown) Write(p []byte) (int, error) { d.calls++; d.bytes += len(p); return len(p), nil }

func TestReplayValveWriter(t *testing.T) {
	runs := 0
	for before := 0; before <= 3; before++ {
		for l := 0; l <= 3; l++ {
			for shuts := 1; shuts <= 2; shuts++ {
				runs++
				down := &c47ValveDown{}
				w := NewValveWriter(down)
				desc := fmt.Sprintf("%d writes of %d bytes, %d x Shut, then writes", before, l, shuts)
				for i := 0; i < before; i++ {
					n, err := w.Write(make([]byte, l))
					if n != l || err != nil || down.calls != i+1 || down.bytes != (i+1)*l {
						fmt.Printf("REPLAY-CONFIRMED: %s: write #%d through the open valve returned (%d, %v), downstream saw %d calls / %d bytes\n", desc, i+1, n, err, down.calls, down.bytes)
						return
					}
				}
				for i := 0; i < shuts; i++ {
					w.Shut()
				}
				calls, total := down.calls, down.bytes
				for after := 0; after <= 3; after++ {
					n, err := w.Write(make([]byte, after))
					if n != after || err != nil || down.calls != calls || down.bytes != total {
						fmt.Printf("REPLAY-CONFIRMED: %s: a write of %d bytes after Shut returned (%d, %v) and the downstream writer received %d more calls / %d more bytes\n",
							desc, after, n, err, down.calls-calls, down.bytes-total)
						return
					}
				}
			}
		}
	}
	fmt.Printf("REPLAY-NOT-REPRODUCED after %d runs\n", runs)
}
