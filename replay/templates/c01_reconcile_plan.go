// pkgdir: pkg/synchronization/core
package core

// Replay for the reconciliation properties C01, C02 (plan part), C03 (plan
// part) and C06. The obligations of these properties are quantified over all
// entry trees, so the solver's model rarely names a concrete triple; the replay
// therefore SEARCHES a small family of (ancestor, alpha, beta) triples under
// every synchronization mode, runs the real core.Reconcile on each and checks
// the plan against oracles written from the property statements (not from the
// code). The oracles use their own tree helpers (lookup by path, shallow
// comparison, "contains untracked content") and never call diff,
// synchronizable or Equal of the package.
//
// Input family: two families of trees over the names {a, b} with two file
// digests, one symbolic link target, untracked and problematic entries and
// empty directories. Family A: the root is absent, a leaf, or a directory of up
// to two leaves (depth <= 1). Family B: the same trees placed one level deeper
// under the root directory entry "d" (depth <= 2, paths d, d/a, d/b). Ancestors
// range over the synchronizable trees only. Phantom directories are excluded:
// the controller reifies them before it calls Reconcile.
//
// Oracles (per plan):
//   C01  two-way-safe: every tracked entry of an endpoint that a change at path
//        p deletes or overwrites equals the ancestor's entry at the same path;
//        where both endpoints created or modified tracked content at a
//        disagreeing path, a conflict rooted there is reported and no change
//        touches that path.
//   C02  one-way modes: no alpha change at all; one-way-safe: the C01 loss
//        oracle for beta; two-way-resolved: the C01 loss oracle for alpha.
//   C03  no change is scheduled at a path whose sub-tree on that endpoint holds
//        untracked or problematic content; where alpha created tracked content
//        (ancestor absent) at a disagreeing path and beta holds untracked
//        content there, a conflict rooted at the path is reported (and, in
//        the two-way modes, likewise where beta created tracked content and
//        alpha is an untracked entry).
//   C06  the paths of all alpha changes, beta changes and conflict roots are
//        pairwise distinct and none is an ancestor of another; every conflict
//        has at least one non-nil change per endpoint, all its changes lie at or
//        below its root, and its root is a path at which alpha and beta
//        disagree (all their parents being agreeing directories).

import (
	"bytes"
	"encoding/json"
	"fmt"
	"sort"
	"strconv"
	"strings"
	"testing"
	"time"
)

const rplModel = `{{MODEL_JSON}}`

var (
	rplD1 = []byte{1, 1, 1, 1}
	rplD2 = []byte{2, 2, 2, 2}
)

// rplLeaves returns the leaf entries (nil = absent) for endpoints or, with
// tracked == true, for ancestors.
func rplLeaves(tracked bool) []*Entry {
	out := []*Entry{
		nil,
		{Kind: EntryKind_File, Digest: rplD1},
		{Kind: EntryKind_File, Digest: rplD2},
		{Kind: EntryKind_SymbolicLink, Target: "t"},
		{Kind: EntryKind_Directory},
	}
	if !tracked {
		out = append(out,
			&Entry{Kind: EntryKind_Untracked},
			&Entry{Kind: EntryKind_Problematic, Problem: "unreadable"},
		)
	}
	return out
}

// rplTrees returns every tree of depth <= 1 over the names a, b.
func rplTrees(tracked bool) []*Entry {
	leaves := rplLeaves(tracked)
	var out []*Entry
	for _, l := range leaves {
		if l != nil && l.Kind == EntryKind_Directory {
			continue // the empty directory is produced below
		}
		out = append(out, l)
	}
	for _, a := range leaves {
		for _, b := range leaves {
			d := &Entry{Kind: EntryKind_Directory}
			if a != nil || b != nil {
				d.Contents = map[string]*Entry{}
				if a != nil {
					d.Contents["a"] = a
				}
				if b != nil {
					d.Contents["b"] = b
				}
			}
			out = append(out, d)
		}
	}
	return out
}

func rplWrap(e *Entry) *Entry {
	d := &Entry{Kind: EntryKind_Directory}
	if e != nil {
		d.Contents = map[string]*Entry{"d": e}
	}
	return d
}

func rplTracked(e *Entry) bool {
	return e != nil && (e.Kind == EntryKind_Directory || e.Kind == EntryKind_File || e.Kind == EntryKind_SymbolicLink)
}

func rplShallowEqual(a, b *Entry) bool {
	if a == nil || b == nil {
		return a == nil && b == nil
	}
	return a.Kind == b.Kind && a.Executable == b.Executable && bytes.Equal(a.Digest, b.Digest) && a.Target == b.Target && a.Problem == b.Problem
}

func rplAt(root *Entry, path string) *Entry {
	if path == "" {
		return root
	}
	e := root
	for _, c := range strings.Split(path, "/") {
		if e == nil {
			return nil
		}
		e = e.Contents[c]
	}
	return e
}

func rplJoin(p, q string) string {
	if p == "" {
		return q
	}
	if q == "" {
		return p
	}
	return p + "/" + q
}

// rplOverlap reports whether p and q are equal or one lies below the other.
func rplOverlap(p, q string) bool {
	return p == q || p == "" || q == "" || strings.HasPrefix(p, q+"/") || strings.HasPrefix(q, p+"/")
}

func rplAtOrBelow(p, root string) bool {
	return p == root || root == "" || strings.HasPrefix(p, root+"/")
}

func rplHoldsUntracked(e *Entry) bool {
	if e == nil {
		return false
	}
	if !rplTracked(e) {
		return true
	}
	for _, c := range e.Contents {
		if rplHoldsUntracked(c) {
			return true
		}
	}
	return false
}

// rplWalkTracked visits the tracked entries of e (relative paths).
func rplWalkTracked(e *Entry, rel string, visit func(rel string, n *Entry)) {
	if !rplTracked(e) {
		return
	}
	visit(rel, e)
	for name, c := range e.Contents {
		rplWalkTracked(c, rplJoin(rel, name), visit)
	}
}

// rplCreatedOrModified: the tracked part of x (located at path p) has an entry
// that the ancestor does not have in the same form at the same path.
func rplCreatedOrModified(ancestor, x *Entry, p string) bool {
	found := false
	rplWalkTracked(x, "", func(rel string, n *Entry) {
		if !rplShallowEqual(n, rplAt(ancestor, rplJoin(p, rel))) {
			found = true
		}
	})
	return found
}

// rplLost returns a description of a tracked entry of the endpoint tree that
// the change destroys although it differs from the ancestor ("" if none).
func rplLost(ancestor, endpoint *Entry, c *Change) string {
	x := rplAt(endpoint, c.Path)
	lost := ""
	rplWalkTracked(x, "", func(rel string, n *Entry) {
		if lost != "" {
			return
		}
		if rplShallowEqual(rplAt(c.New, rel), n) {
			return // stays as it is
		}
		full := rplJoin(c.Path, rel)
		if !rplShallowEqual(n, rplAt(ancestor, full)) {
			lost = fmt.Sprintf("entry %q (%s) is destroyed although the last-synchronized tree has %s there", full, rplShow(n), rplShow(rplAt(ancestor, full)))
		}
	})
	return lost
}

// rplDisagreements computes the paths at which alpha and beta disagree while
// all their parents are agreeing directories, from the trees alone.
func rplDisagreements(alpha, beta *Entry, path string, out map[string]bool) {
	if (alpha != nil && alpha.Kind == EntryKind_Problematic) || (beta != nil && beta.Kind == EntryKind_Problematic) {
		return
	}
	aNone := alpha == nil || alpha.Kind == EntryKind_Untracked
	bNone := beta == nil || beta.Kind == EntryKind_Untracked
	if aNone && bNone {
		return
	}
	if !rplShallowEqual(alpha, beta) {
		out[path] = true
		return
	}
	names := map[string]bool{}
	for n := range alpha.Contents {
		names[n] = true
	}
	for n := range beta.Contents {
		names[n] = true
	}
	for n := range names {
		rplDisagreements(alpha.Contents[n], beta.Contents[n], rplJoin(path, n), out)
	}
}

func rplShow(e *Entry) string {
	if e == nil {
		return "absent"
	}
	switch e.Kind {
	case EntryKind_File:
		return fmt.Sprintf("file#%d", e.Digest[0])
	case EntryKind_SymbolicLink:
		return "link->" + e.Target
	case EntryKind_Untracked:
		return "untracked"
	case EntryKind_Problematic:
		return "problematic"
	case EntryKind_Directory:
		names := make([]string, 0, len(e.Contents))
		for n := range e.Contents {
			names = append(names, n)
		}
		sort.Strings(names)
		parts := make([]string, 0, len(names))
		for _, n := range names {
			parts = append(parts, n+":"+rplShow(e.Contents[n]))
		}
		return "dir{" + strings.Join(parts, " ") + "}"
	}
	return fmt.Sprintf("kind%d", e.Kind)
}

func rplShowChanges(cs []*Change) string {
	parts := make([]string, 0, len(cs))
	for _, c := range cs {
		if c == nil {
			parts = append(parts, "<nil>")
			continue
		}
		parts = append(parts, fmt.Sprintf("%q: %s => %s", c.Path, rplShow(c.Old), rplShow(c.New)))
	}
	return "[" + strings.Join(parts, "; ") + "]"
}

var rplModeNames = map[SynchronizationMode]string{
	SynchronizationMode_SynchronizationModeTwoWaySafe:     "two-way-safe",
	SynchronizationMode_SynchronizationModeTwoWayResolved: "two-way-resolved",
	SynchronizationMode_SynchronizationModeOneWaySafe:     "one-way-safe",
	SynchronizationMode_SynchronizationModeOneWayReplica:  "one-way-replica",
}

// rplCheck runs Reconcile on one triple and returns the violated oracles
// keyed by property.
func rplCheck(ancestor, alpha, beta *Entry, mode SynchronizationMode) map[string]string {
	_, alphaChanges, betaChanges, conflicts := Reconcile(ancestor, alpha, beta, mode)
	bad := map[string]string{}
	report := func(property, what string) {
		if _, ok := bad[property]; !ok {
			bad[property] = what
		}
	}
	twoWaySafe := mode == SynchronizationMode_SynchronizationModeTwoWaySafe
	twoWayResolved := mode == SynchronizationMode_SynchronizationModeTwoWayResolved
	oneWaySafe := mode == SynchronizationMode_SynchronizationModeOneWaySafe
	oneWay := oneWaySafe || mode == SynchronizationMode_SynchronizationModeOneWayReplica

	disagreements := map[string]bool{}
	rplDisagreements(alpha, beta, "", disagreements)

	// C06: non-nil, one action per path and sub-tree.
	type action struct{ path, what string }
	var actions []action
	for _, c := range alphaChanges {
		if c == nil {
			report("C06", "nil alpha change in the plan")
			return bad
		}
		actions = append(actions, action{c.Path, "alpha change"})
	}
	for _, c := range betaChanges {
		if c == nil {
			report("C06", "nil beta change in the plan")
			return bad
		}
		actions = append(actions, action{c.Path, "beta change"})
	}
	for _, c := range conflicts {
		if c == nil {
			report("C06", "nil conflict in the plan")
			return bad
		}
		actions = append(actions, action{c.Root, "conflict"})
	}
	for i := range actions {
		for j := i + 1; j < len(actions); j++ {
			if rplOverlap(actions[i].path, actions[j].path) {
				report("C06", fmt.Sprintf("%s at %q and %s at %q are scheduled for the same path or for a path and its descendant", actions[i].what, actions[i].path, actions[j].what, actions[j].path))
			}
		}
	}
	for _, c := range conflicts {
		if len(c.AlphaChanges) == 0 || len(c.BetaChanges) == 0 {
			report("C06", fmt.Sprintf("conflict at %q names %d alpha and %d beta changes", c.Root, len(c.AlphaChanges), len(c.BetaChanges)))
		}
		for _, cc := range append(append([]*Change{}, c.AlphaChanges...), c.BetaChanges...) {
			if cc == nil {
				report("C06", fmt.Sprintf("conflict at %q contains a nil change", c.Root))
			} else if !rplAtOrBelow(cc.Path, c.Root) {
				report("C06", fmt.Sprintf("conflict rooted at %q names a change at %q", c.Root, cc.Path))
			}
		}
		if !disagreements[c.Root] {
			report("C06", fmt.Sprintf("conflict rooted at %q, which is not a path where alpha (%s) and beta (%s) disagree", c.Root, rplShow(rplAt(alpha, c.Root)), rplShow(rplAt(beta, c.Root))))
		}
	}

	// C02: direction.
	if oneWay && len(alphaChanges) > 0 {
		report("C02", fmt.Sprintf("one-way mode plans alpha changes %s", rplShowChanges(alphaChanges)))
	}

	// C01 / C02: no loss of content changed since the last synchronization.
	for _, c := range alphaChanges {
		if twoWaySafe || twoWayResolved {
			if lost := rplLost(ancestor, alpha, c); lost != "" {
				if twoWaySafe {
					report("C01", "alpha change at "+strconv.Quote(c.Path)+": "+lost)
				} else {
					report("C02", "alpha change at "+strconv.Quote(c.Path)+": "+lost)
				}
			}
		}
	}
	for _, c := range betaChanges {
		if twoWaySafe || oneWaySafe {
			if lost := rplLost(ancestor, beta, c); lost != "" {
				if twoWaySafe {
					report("C01", "beta change at "+strconv.Quote(c.Path)+": "+lost)
				} else {
					report("C02", "beta change at "+strconv.Quote(c.Path)+": "+lost)
				}
			}
		}
	}

	// C03: untracked and problematic content is never under a change.
	for _, c := range alphaChanges {
		if x := rplAt(alpha, c.Path); rplHoldsUntracked(x) {
			report("C03", fmt.Sprintf("alpha change at %q replaces %s, which holds untracked or problematic content", c.Path, rplShow(x)))
		}
	}
	for _, c := range betaChanges {
		if x := rplAt(beta, c.Path); rplHoldsUntracked(x) {
			report("C03", fmt.Sprintf("beta change at %q replaces %s, which holds untracked or problematic content", c.Path, rplShow(x)))
		}
	}

	conflictAt := func(p string) bool {
		for _, c := range conflicts {
			if c.Root == p {
				return true
			}
		}
		return false
	}
	changeOverlapping := func(p string) bool {
		for _, c := range alphaChanges {
			if rplOverlap(c.Path, p) {
				return true
			}
		}
		for _, c := range betaChanges {
			if rplOverlap(c.Path, p) {
				return true
			}
		}
		return false
	}
	for p := range disagreements {
		a, b, o := rplAt(alpha, p), rplAt(beta, p), rplAt(ancestor, p)
		// C01: both sides created or modified tracked content here.
		if twoWaySafe && rplTracked(a) && rplTracked(b) && rplCreatedOrModified(ancestor, a, p) && rplCreatedOrModified(ancestor, b, p) {
			if !conflictAt(p) {
				report("C01", fmt.Sprintf("both endpoints created or modified content at %q (alpha %s, beta %s, last synchronized %s) but no conflict is reported there", p, rplShow(a), rplShow(b), rplShow(o)))
			} else if changeOverlapping(p) {
				report("C01", fmt.Sprintf("both endpoints created or modified content at %q but a change is planned over it", p))
			}
		}
		// C03: propagating alpha's creation would remove untracked content.
		if o == nil && rplTracked(a) && rplHoldsUntracked(b) && !conflictAt(p) {
			report("C03", fmt.Sprintf("alpha created %s at %q, beta holds untracked content there (%s), and no conflict is reported", rplShow(a), p, rplShow(b)))
		}
		if !oneWay && o == nil && rplTracked(b) && a != nil && a.Kind == EntryKind_Untracked && !conflictAt(p) {
			report("C03", fmt.Sprintf("beta created %s at %q, alpha is untracked content there, and no conflict is reported", rplShow(b), p))
		}
	}
	return bad
}

func TestReplayReconcilePlan(t *testing.T) {
	start := time.Now()
	modes := []SynchronizationMode{
		SynchronizationMode_SynchronizationModeTwoWaySafe,
		SynchronizationMode_SynchronizationModeTwoWayResolved,
		SynchronizationMode_SynchronizationModeOneWaySafe,
		SynchronizationMode_SynchronizationModeOneWayReplica,
	}
	// Hint: a mode named by the solver's model is tried first.
	var model map[string]string
	_ = json.Unmarshal([]byte(rplModel), &model)
	for name, value := range model {
		if !strings.Contains(strings.ToLower(name), "mode") {
			continue
		}
		if v, err := strconv.Atoi(value); err == nil && v >= 1 && v <= 4 {
			hinted := SynchronizationMode(v)
			reordered := []SynchronizationMode{hinted}
			for _, m := range modes {
				if m != hinted {
					reordered = append(reordered, m)
				}
			}
			modes = reordered
			break
		}
	}

	ancestors := rplTrees(true)
	endpoints := rplTrees(false)
	confirmed := map[string]string{}
	evaluated := 0
	for _, deeper := range []bool{false, true} {
		for _, mode := range modes {
			for _, o := range ancestors {
				for _, a := range endpoints {
					for _, b := range endpoints {
						ancestor, alpha, beta := o, a, b
						if deeper {
							if o == nil && a == nil && b == nil {
								continue
							}
							ancestor, alpha, beta = rplWrap(o), rplWrap(a), rplWrap(b)
						}
						evaluated++
						for property, what := range rplCheck(ancestor, alpha, beta, mode) {
							if _, ok := confirmed[property]; !ok {
								confirmed[property] = fmt.Sprintf("[%s] mode %s, last synchronized %s, alpha %s, beta %s: %s", property, rplModeNames[mode], rplShow(ancestor), rplShow(alpha), rplShow(beta), what)
							}
						}
					}
				}
			}
			if time.Since(start) > 20*time.Second {
				break
			}
		}
	}
	properties := make([]string, 0, len(confirmed))
	for p := range confirmed {
		properties = append(properties, p)
	}
	sort.Strings(properties)
	for _, p := range properties {
		fmt.Printf("REPLAY-CONFIRMED: %s\n", confirmed[p])
	}
	if len(confirmed) == 0 {
		fmt.Printf("REPLAY-NOT-REPRODUCED (%d plans of core.Reconcile checked in %v)\n", evaluated, time.Since(start).Round(time.Millisecond))
	}
}
