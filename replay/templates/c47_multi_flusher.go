// pkgdir: pkg/stream
package stream

// Replay for the multi-flusher (C47; carries C22's multi-layer flush). Search
// family: 0..5 flushers, every subset of them failing with distinct errors.
// Oracle: flushers are flushed in argument order, Flush returns nil only when
// every flusher was flushed successfully, and otherwise it returns the first
// failure.

import (
	"fmt"
	"testing"
)

const replayModelC47Multi = `{{MODEL_JSON}}`

type c47Err int

func (e c47Err) Error() string { return fmt.Sprintf("injected failure of #%d", int(e)) }

type c47Part struct {
	index int
	fail  bool
	log   *[]int
}

func (p *c47Part) Close() error {
	*p.log = append(*p.log, p.index)
	if p.fail {
		return c47Err(p.index)
	}
	return nil
}

func (p *c47Part) Flush() error { return p.Close() }

func c47Parts(n, mask int, log *[]int) (parts []*c47Part, first error, failing []int) {
	for i := 0; i < n; i++ {
		p := &c47Part{index: i, fail: mask&(1<<i) != 0, log: log}
		parts = append(parts, p)
		if p.fail {
			failing = append(failing, i)
			if first == nil {
				first = c47Err(i)
			}
		}
	}
	return
}

func TestReplayMultiFlusher(t *testing.T) {
	runs := 0
	for n := 0; n <= 5; n++ {
		for mask := 0; mask < 1<<n; mask++ {
			runs++
			var log []int
			parts, first, failing := c47Parts(n, mask, &log)
			args := make([]Flusher, n)
			for i, p := range parts {
				args[i] = p
			}
			err := NewMultiFlusher(args...).Flush()
			desc := fmt.Sprintf("%d flushers, failing: %v", n, failing)
			for i, j := range log {
				if i != j {
					fmt.Printf("REPLAY-CONFIRMED: %s: flush order %v is not the argument order\n", desc, log)
					return
				}
			}
			if err != first {
				fmt.Printf("REPLAY-CONFIRMED: %s: Flush returned %v, the first failure is %v (flushed: %v)\n", desc, err, first, log)
				return
			}
			if err == nil && len(log) != n {
				fmt.Printf("REPLAY-CONFIRMED: %s: Flush returned nil after flushing only %v\n", desc, log)
				return
			}
		}
	}
	fmt.Printf("REPLAY-NOT-REPRODUCED after %d runs\n", runs)
}
