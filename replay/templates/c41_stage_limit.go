// pkgdir: pkg/synchronization/endpoint/local
package local

// Replay for C41 (Stage entry-count limit). The solver's model has
// lastScanEntryCount > maximumEntryCount at the subtraction; on the real code
// that state arises when a scan fails on the entry count after an earlier
// successful scan (the failed scan stores its count; the stage flag is still
// armed). The replay drives exactly that sequence for small limits.

import (
	"context"
	"fmt"
	"io"
	"os"
	"path/filepath"
	"testing"

	"github.com/mutagen-io/mutagen/pkg/logging"
	"github.com/mutagen-io/mutagen/pkg/synchronization"
)

const replayModel = `{{MODEL_JSON}}`

func TestReplayStageLimit(t *testing.T) {
	for _, maximum := range []uint64{2, 3, 5} {
		dir, err := os.MkdirTemp("", "c41replay")
		if err != nil {
			t.Fatal(err)
		}
		defer os.RemoveAll(dir)
		os.Setenv("MUTAGEN_DATA_DIRECTORY", filepath.Join(dir, "data"))
		root := filepath.Join(dir, "root")
		os.Mkdir(root, 0700)
		ep, err := NewEndpoint(logging.NewLogger(logging.LevelDisabled, io.Discard), root, "replay-session",
			synchronization.Version_Version1, &synchronization.Configuration{MaximumEntryCount: maximum, WatchMode: synchronization.WatchMode_WatchModeNoWatch}, false)
		if err != nil {
			t.Fatal(err)
		}
		e := ep.(*endpoint)
		if _, err, _ := e.Scan(context.Background(), nil, true); err != nil {
			t.Fatal("first scan failed:", err)
		}
		// grow the root beyond the limit; the next scan fails on the count
		for i := uint64(0); i < maximum+2; i++ {
			os.WriteFile(filepath.Join(root, fmt.Sprintf("f%d", i)), []byte("x"), 0600)
		}
		if _, err, _ := e.Scan(context.Background(), nil, true); err == nil {
			t.Fatal("scan beyond the limit unexpectedly succeeded")
		}
		n := int(maximum) + 1
		paths := make([]string, n)
		digests := make([][]byte, n)
		for i := range paths {
			paths[i] = fmt.Sprintf("new%d", i)
			digests[i] = []byte{byte(i), 1, 2, 3, 4, 5, 6, 7, 8, 9, 10, 11, 12, 13, 14, 15, 16, 17, 18, 19}
		}
		filtered, _, _, err := e.Stage(paths, digests)
		ep.Shutdown()
		if err == nil {
			fmt.Printf("REPLAY-CONFIRMED: maximum entry count %d, last scan counted %d entries (scan failed on the limit), Stage of %d paths was accepted and returned %d paths\n", maximum, maximum+3, n, len(filtered))
			return
		}
	}
	fmt.Println("REPLAY-NOT-REPRODUCED")
}
