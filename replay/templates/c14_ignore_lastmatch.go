// pkgdir: pkg/synchronization/core/ignore/mutagen
package mutagen

// Replay for C14 (Mutagen-style ignores). The obligations are quantified over
// pattern lists, paths and kinds, so the replay searches a small family on
// the real code through the exported entry points (NewIgnorer, Ignore,
// EnsurePatternValid) and compares with a reference written from the property
// statement: a pattern is '!'? '/'? glob '/'? ; without a slash (other than the
// trailing one) it is matched against the final component anywhere, with a
// leading or inner slash it is anchored at the root; a trailing slash restricts
// it to directories; '*' and '?' stay within a component, a '**' component
// spans zero or more directory levels; the verdict of a list is that of the
// last matching pattern (negated: unignored, otherwise ignored, none:
// nominal). Family: all lists of up to two patterns from 40 patterns and all
// lists of three from 20, against every path of depth 1..3 over the names
// {a, b, ab}, as file and as directory. Patterns whose glob part is empty
// ("", "!", "/", "//", "!/", ...) name nothing below the root and must be
// rejected; every other pattern of the family must be accepted.

import (
	"fmt"
	"strings"
	"testing"

	"github.com/mutagen-io/mutagen/pkg/synchronization/core/ignore"
)

const replayModelC14 = `{{MODEL_JSON}}`

// c14Seg matches one path component against a glob without slashes.
func c14Seg(pat, name string) bool {
	if pat == "" {
		return name == ""
	}
	switch pat[0] {
	case '*':
		for k := 0; k <= len(name); k++ {
			if c14Seg(pat[1:], name[k:]) {
				return true
			}
		}
		return false
	case '?':
		return name != "" && c14Seg(pat[1:], name[1:])
	case '[':
		end := strings.IndexByte(pat, ']')
		if end < 0 || name == "" {
			return false
		}
		return strings.IndexByte(pat[1:end], name[0]) >= 0 && c14Seg(pat[end+1:], name[1:])
	}
	return name != "" && name[0] == pat[0] && c14Seg(pat[1:], name[1:])
}

// c14Segs matches path components against pattern components.
func c14Segs(pats, parts []string) bool {
	if len(pats) == 0 {
		return len(parts) == 0
	}
	if pats[0] == "**" {
		for k := 0; k <= len(parts); k++ {
			if c14Segs(pats[1:], parts[k:]) {
				return true
			}
		}
		return false
	}
	return len(parts) > 0 && c14Seg(pats[0], parts[0]) && c14Segs(pats[1:], parts[1:])
}

// c14Matches is the reference meaning of one pattern as written.
func c14Matches(pattern, path string, directory bool) (negated, match bool) {
	if strings.HasPrefix(pattern, "!") {
		negated = true
		pattern = pattern[1:]
	}
	if strings.HasSuffix(pattern, "/") {
		if !directory {
			return negated, false
		}
		pattern = pattern[:len(pattern)-1]
	}
	parts := strings.Split(path, "/")
	if !strings.Contains(pattern, "/") {
		// final component anywhere
		return negated, c14Segs([]string{pattern}, parts[len(parts)-1:])
	}
	pattern = strings.TrimPrefix(pattern, "/")
	return negated, c14Segs(strings.Split(pattern, "/"), parts)
}

func c14Verdict(patterns []string, path string, directory bool) ignore.IgnoreStatus {
	status := ignore.IgnoreStatusNominal
	for _, p := range patterns {
		if negated, match := c14Matches(p, path, directory); match {
			if negated {
				status = ignore.IgnoreStatusUnignored
			} else {
				status = ignore.IgnoreStatusIgnored
			}
		}
	}
	return status
}

func c14Name(s ignore.IgnoreStatus) string {
	switch s {
	case ignore.IgnoreStatusNominal:
		return "nominal"
	case ignore.IgnoreStatusIgnored:
		return "ignored"
	case ignore.IgnoreStatusUnignored:
		return "unignored"
	}
	return fmt.Sprintf("status(%d)", s)
}

func TestReplayIgnoreLastMatch(t *testing.T) {
	// validity
	for _, p := range []string{"", "!", "/", "//", "///", "!/", "!//", "!///"} {
		if EnsurePatternValid(p) == nil {
			fmt.Printf("REPLAY-CONFIRMED: pattern %q was accepted; its glob part is empty (it names nothing below the synchronization root) and it must be rejected\n", p)
			return
		}
		if _, err := NewIgnorer([]string{"a", p}); err == nil {
			fmt.Printf("REPLAY-CONFIRMED: NewIgnorer accepted the pattern list [\"a\" %q]; the second pattern's glob part is empty and must be rejected\n", p)
			return
		}
	}
	base := []string{"a", "/a", "a/", "a/b", "*", "**/b", "a/**/b", "b", "/b/", "?b",
		"/a/", "/a/b", "a/b/", "a*", "?", "*/b", "/**/b", "a/**/b/", "[ab]", "b/"}
	var pool, small []string
	for i, p := range base {
		pool = append(pool, p, "!"+p)
		if i < 10 {
			small = append(small, p, "!"+p)
		}
	}
	names := []string{"a", "b", "ab"}
	var paths []string
	for _, x := range names {
		paths = append(paths, x)
		for _, y := range names {
			paths = append(paths, x+"/"+y)
			for _, z := range names {
				paths = append(paths, x+"/"+y+"/"+z)
			}
		}
	}
	var lists [][]string
	for _, p := range pool {
		lists = append(lists, []string{p})
	}
	for _, p := range pool {
		for _, q := range pool {
			lists = append(lists, []string{p, q})
		}
	}
	for _, p := range small {
		for _, q := range small {
			for _, r := range small {
				lists = append(lists, []string{p, q, r})
			}
		}
	}
	runs := 0
	for _, list := range lists {
		ig, err := NewIgnorer(list)
		if err != nil {
			fmt.Printf("REPLAY-CONFIRMED: NewIgnorer(%q) failed (%v); every pattern of the list is a valid Mutagen-style pattern\n", list, err)
			return
		}
		for _, path := range paths {
			for _, directory := range []bool{false, true} {
				runs++
				got, cont := ig.Ignore(path, directory)
				want := c14Verdict(list, path, directory)
				if got != want || cont {
					kind := "file"
					if directory {
						kind = "directory"
					}
					fmt.Printf("REPLAY-CONFIRMED: patterns %q, %s %q: Ignore returned (%s, %v); the last matching pattern makes it %s (continue-traversal must be false)\n",
						list, kind, path, c14Name(got), cont, c14Name(want))
					return
				}
			}
		}
	}
	fmt.Printf("REPLAY-NOT-REPRODUCED after %d evaluations of %d pattern lists\n", runs, len(lists))
}
