// pkgdir: pkg/multiplexing/ring
package ring

// Replay for C26 (ring buffer = bounded FIFO byte queue). Models of the
// quantified obligations are partial at best, so the replay searches a small
// family on the real code: every representable state Buffer{storage, size,
// start, used} with size 0..4 (plus NewBuffer results), sequences of two
// operations (one for size 4) (Write/Read of every length 0..size+1, WriteByte, ReadByte,
// ReadNFrom with short-reading / failing / EOF readers, WriteTo with
// short-writing / failing writers, Reset, Size/Used/Free), followed by a full
// drain. Every observable result is compared with a slice-backed bounded FIFO
// queue written from the property statement. A panic counts as a failure.

import (
	"bytes"
	"errors"
	"fmt"
	"io"
	"testing"
)

// model values of the failed obligation (informational)
const replayModelC26 = `{{MODEL_JSON}}`

// c26Queue is the oracle: a bounded FIFO byte queue.
type c26Queue struct {
	capacity int
	data     []byte
}

var errC26Peer = errors.New("injected peer failure")

// c26Reader delivers at most chunk bytes per call from stream; after the
// stream is exhausted it returns final (io.EOF or an injected error); with
// eager set the final error accompanies the last data.
type c26Reader struct {
	stream   []byte
	chunk    int
	final    error
	eager    bool
	consumed []byte
	lastErr  error
}

func (r *c26Reader) Read(p []byte) (int, error) {
	n := len(p)
	if n > r.chunk {
		n = r.chunk
	}
	if n > len(r.stream) {
		n = len(r.stream)
	}
	copy(p, r.stream[:n])
	r.consumed = append(r.consumed, r.stream[:n]...)
	r.stream = r.stream[n:]
	if len(r.stream) == 0 && (r.eager || n == 0) {
		r.lastErr = r.final
		return n, r.final
	}
	return n, nil
}

// c26Writer accepts at most chunk bytes per call (a short write without an
// error, which the buffer must account exactly) and fails, accepting only what
// still fits, on the call that would take it beyond budget bytes (-1 = never).
type c26Writer struct {
	chunk  int
	budget int
	got    []byte
	failed bool
}

func (w *c26Writer) Write(p []byte) (int, error) {
	n := len(p)
	if n > w.chunk {
		n = w.chunk
	}
	if w.budget >= 0 && len(w.got)+n > w.budget {
		n = w.budget - len(w.got)
		w.got = append(w.got, p[:n]...)
		w.failed = true
		return n, errC26Peer
	}
	w.got = append(w.got, p[:n]...)
	return n, nil
}

type c26Op struct {
	kind  string
	n     int // length / count argument
	chunk int
	avail int   // reader: stream length; writer: budget (-1 = unlimited)
	final error // reader: error after the stream
	eager bool
}

func (o c26Op) String() string {
	switch o.kind {
	case "Write", "Read":
		return fmt.Sprintf("%s(len %d)", o.kind, o.n)
	case "ReadNFrom":
		return fmt.Sprintf("ReadNFrom(reader{%d bytes, <=%d per call, then %v, with-last-data=%v}, n=%d)", o.avail, o.chunk, o.final, o.eager, o.n)
	case "WriteTo":
		if o.avail < 0 {
			return fmt.Sprintf("WriteTo(writer{<=%d per call})", o.chunk)
		}
		return fmt.Sprintf("WriteTo(writer{<=%d per call, fails after %d bytes})", o.chunk, o.avail)
	}
	return o.kind + "()"
}

// c26Apply runs one operation on the real buffer and on the oracle; it returns
// a description of the first disagreement, or "".
func c26Apply(b *Buffer, q *c26Queue, o c26Op, next *byte) (bad string) {
	defer func() {
		if r := recover(); r != nil {
			bad = fmt.Sprintf("panic: %v", r)
		}
	}()
	free := q.capacity - len(q.data)
	switch o.kind {
	case "Size":
		if g := b.Size(); g != q.capacity {
			return fmt.Sprintf("Size() = %d, a queue of capacity %d has size %d", g, q.capacity, q.capacity)
		}
	case "Used":
		if g := b.Used(); g != len(q.data) {
			return fmt.Sprintf("Used() = %d, the queue holds %d", g, len(q.data))
		}
	case "Free":
		if g := b.Free(); g != free {
			return fmt.Sprintf("Free() = %d, the queue has %d free", g, free)
		}
	case "Reset":
		b.Reset()
		q.data = nil
	case "Write":
		data := make([]byte, o.n)
		for i := range data {
			*next++
			data[i] = *next
		}
		want := o.n
		if want > free {
			want = free
		}
		var wantErr error
		if o.n > free {
			wantErr = ErrBufferFull
		}
		n, err := b.Write(append([]byte(nil), data...))
		q.data = append(q.data, data[:want]...)
		if n != want || err != wantErr {
			return fmt.Sprintf("Write of %d bytes with %d free returned (%d, %v), want (%d, %v)", o.n, free, n, err, want, wantErr)
		}
	case "WriteByte":
		*next++
		var wantErr error
		if free == 0 {
			wantErr = ErrBufferFull
		} else {
			q.data = append(q.data, *next)
		}
		if err := b.WriteByte(*next); err != wantErr {
			return fmt.Sprintf("WriteByte with %d free returned %v, want %v", free, err, wantErr)
		}
	case "Read":
		dst := make([]byte, o.n)
		want := o.n
		if want > len(q.data) {
			want = len(q.data)
		}
		var wantErr error
		if o.n > 0 && len(q.data) == 0 {
			wantErr = io.EOF
		}
		wantBytes := append([]byte(nil), q.data[:want]...)
		q.data = q.data[want:]
		n, err := b.Read(dst)
		if n != want || err != wantErr {
			return fmt.Sprintf("Read into %d bytes with %d queued returned (%d, %v), want (%d, %v)", o.n, len(wantBytes)+len(q.data), n, err, want, wantErr)
		}
		if !bytes.Equal(dst[:n], wantBytes) {
			return fmt.Sprintf("Read into %d bytes returned bytes %v, the queue's oldest bytes are %v", o.n, dst[:n], wantBytes)
		}
	case "ReadByte":
		var want byte
		var wantErr error
		if len(q.data) == 0 {
			wantErr = io.EOF
		} else {
			want = q.data[0]
			q.data = q.data[1:]
		}
		v, err := b.ReadByte()
		if err != wantErr || (err == nil && v != want) {
			return fmt.Sprintf("ReadByte returned (%d, %v), want (%d, %v)", v, err, want, wantErr)
		}
	case "ReadNFrom":
		stream := make([]byte, o.avail)
		for i := range stream {
			*next++
			stream[i] = *next
		}
		limit := o.n
		if limit > free {
			limit = free
		}
		if limit < 0 {
			limit = 0
		}
		r := &c26Reader{stream: stream, chunk: o.chunk, final: o.final, eager: o.eager}
		n, err := b.ReadNFrom(r, o.n)
		if len(r.consumed) <= limit {
			q.data = append(q.data, r.consumed...)
		} else {
			q.data = append(q.data, r.consumed[:limit]...)
		}
		if len(r.consumed) > limit {
			return fmt.Sprintf("ReadNFrom(n=%d) with %d free took %d bytes from the reader (returned %d, %v); at most %d may be taken", o.n, free, len(r.consumed), n, err, limit)
		}
		if n != len(r.consumed) {
			return fmt.Sprintf("ReadNFrom returned %d but the reader delivered %d bytes", n, len(r.consumed))
		}
		// exact accounting of the outcome
		var wantErr error
		switch {
		case r.lastErr != nil && r.lastErr != io.EOF:
			wantErr = r.lastErr
		case n == o.n || o.n <= 0:
			wantErr = nil
		case r.lastErr == io.EOF:
			wantErr = io.EOF
		default:
			wantErr = ErrBufferFull // asked for more than fits and the reader had more
		}
		if err != wantErr {
			return fmt.Sprintf("ReadNFrom(n=%d) with %d free took %d bytes (reader's last error %v) and returned error %v, want %v", o.n, free, n, r.lastErr, err, wantErr)
		}
		if wantErr == ErrBufferFull && n != free {
			return fmt.Sprintf("ReadNFrom(n=%d) reported full after %d bytes with %d free", o.n, n, free)
		}
	case "WriteTo":
		w := &c26Writer{chunk: o.chunk, budget: o.avail}
		before := append([]byte(nil), q.data...)
		n, err := b.WriteTo(w)
		if int(n) != len(w.got) {
			return fmt.Sprintf("WriteTo returned %d but the writer accepted %d bytes", n, len(w.got))
		}
		if len(w.got) > len(before) || !bytes.Equal(w.got, before[:len(w.got)]) {
			return fmt.Sprintf("WriteTo delivered %v to the writer, the queue held %v", w.got, before)
		}
		q.data = before[len(w.got):]
		if w.failed != (err != nil) {
			return fmt.Sprintf("WriteTo returned error %v, writer failed = %v", err, w.failed)
		}
		if err == nil && len(q.data) != 0 {
			return fmt.Sprintf("WriteTo returned nil with %d of %d queued bytes not delivered", len(q.data), len(before))
		}
	}
	// the cheap observers must agree after every operation
	if b.Used() != len(q.data) || b.Free() != q.capacity-len(q.data) || b.Size() != q.capacity {
		return fmt.Sprintf("after the operation Size/Used/Free = %d/%d/%d, the queue has %d/%d/%d", b.Size(), b.Used(), b.Free(), q.capacity, len(q.data), q.capacity-len(q.data))
	}
	return ""
}

func c26Ops(size int) []c26Op {
	ops := []c26Op{{kind: "Size"}, {kind: "Used"}, {kind: "Free"}, {kind: "Reset"}, {kind: "WriteByte"}, {kind: "ReadByte"}}
	for n := 0; n <= size+1; n++ {
		ops = append(ops, c26Op{kind: "Write", n: n}, c26Op{kind: "Read", n: n})
	}
	for n := 0; n <= size+1; n++ {
		for _, chunk := range []int{1, 2, 100} {
			for avail := 0; avail <= size+2; avail++ {
				if avail > n+1 {
					continue
				}
				for _, final := range []error{io.EOF, errC26Peer} {
					for _, eager := range []bool{false, true} {
						ops = append(ops, c26Op{kind: "ReadNFrom", n: n, chunk: chunk, avail: avail, final: final, eager: eager})
					}
				}
			}
		}
	}
	for _, chunk := range []int{1, 2, 100} {
		for budget := -1; budget <= size; budget++ {
			ops = append(ops, c26Op{kind: "WriteTo", chunk: chunk, avail: budget})
		}
	}
	return ops
}

// c26States builds every representable state of a buffer of the given size,
// with distinct byte values in storage, together with its queue contents.
func c26States(size int, visit func(desc string, make func() (*Buffer, *c26Queue))) {
	visit(fmt.Sprintf("NewBuffer(%d)", size), func() (*Buffer, *c26Queue) {
		return NewBuffer(size), &c26Queue{capacity: size}
	})
	if size == 0 {
		visit("zero Buffer", func() (*Buffer, *c26Queue) { return &Buffer{}, &c26Queue{} })
		visit("NewBuffer(-3)", func() (*Buffer, *c26Queue) { return NewBuffer(-3), &c26Queue{} })
		return
	}
	for start := 0; start < size; start++ {
		for used := 0; used <= size; used++ {
			start, used := start, used
			visit(fmt.Sprintf("Buffer{size %d, start %d, used %d}", size, start, used), func() (*Buffer, *c26Queue) {
				storage := make([]byte, size)
				for i := range storage {
					storage[i] = byte(200 + i)
				}
				q := &c26Queue{capacity: size}
				for i := 0; i < used; i++ {
					q.data = append(q.data, storage[(start+i)%size])
				}
				return &Buffer{storage: storage, size: size, start: start, used: used}, q
			})
		}
	}
}

func TestReplayRingFIFO(t *testing.T) {
	runs := 0
	confirmed := ""
	drain := []c26Op{{kind: "Read", n: 1}, {kind: "ReadByte"}, {kind: "Read", n: 100}, {kind: "Read", n: 1}}
	seq := append([]c26Op{{}, {}}, drain...)
	for size := 0; size <= 4 && confirmed == ""; size++ {
		ops := c26Ops(size)
		var light []c26Op
		for _, o := range ops {
			if o.chunk == 0 || o.chunk == 100 {
				light = append(light, o)
			}
		}
		c26States(size, func(desc string, mk func() (*Buffer, *c26Queue)) {
			if confirmed != "" {
				return
			}
			// NewBuffer itself is under test: a construction panic is a failure
			func() {
				defer func() {
					if r := recover(); r != nil {
						confirmed = fmt.Sprintf("%s panicked: %v", desc, r)
					}
				}()
				mk()
			}()
			for _, first := range ops {
				if confirmed != "" {
					return
				}
				seconds := ops
				if size == 3 {
					seconds = light // second operation without the chunked peers
				} else if size == 4 {
					seconds = drain[:1] // depth one plus drain for the largest size
				}
				for _, second := range seconds {
					b, q := mk()
					var next byte
					seq[0], seq[1] = first, second
					for i, o := range seq {
						runs++
						if bad := c26Apply(b, q, o, &next); bad != "" {
							confirmed = desc
							for _, p := range seq[:i+1] {
								confirmed += " ; " + p.String()
							}
							confirmed += ": " + bad
							return
						}
					}
				}
			}
		})
	}
	if confirmed != "" {
		fmt.Printf("REPLAY-CONFIRMED: %s (expected: behaviour of a bounded FIFO byte queue of the same capacity)\n", confirmed)
		return
	}
	fmt.Printf("REPLAY-NOT-REPRODUCED after %d operations\n", runs)
}
