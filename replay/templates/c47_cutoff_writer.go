// pkgdir: pkg/stream
package stream

// Replay for C47, cutoff writer: "forwards exactly the first N bytes and
// reports all later bytes as written". Search family: cutoffs 0..5, streams of
// 0..8 distinct bytes handed over in chunks of 1..4 by a caller that, like
// io.Copy-style callers, resumes after the reported count when a call fails;
// downstream writers that accept everything, or fail once (accepting a short
// count 0..2) at their k-th call. Oracle: downstream receives exactly the
// first min(N, len) bytes of the stream, an error-free call reports its whole
// buffer, no call reports more than its buffer, and a call fails only when the
// downstream writer failed.

import (
	"bytes"
	"errors"
	"fmt"
	"testing"
)

const replayModelC47Cutoff = `{{MODEL_JSON}}`

var errC47Down = errors.New("injected downstream failure")

// c47Down records accepted bytes; at call number failAt (0-based) it accepts
// only short bytes (at most) and fails; failAt < 0 never fails.
type c47Down struct {
	got    []byte
	calls  int
	failAt int
	short  int
	failed bool
}

func (d *c47Down) Write(p []byte) (int, error) {
	call := d.calls
	d.calls++
	if call == d.failAt {
		n := d.short
		if n > len(p) {
			n = len(p)
		}
		d.got = append(d.got, p[:n]...)
		d.failed = true
		return n, errC47Down
	}
	d.got = append(d.got, p...)
	return len(p), nil
}

func TestReplayCutoffWriter(t *testing.T) {
	runs := 0
	for cutoff := uint(0); cutoff <= 5; cutoff++ {
		for length := 0; length <= 8; length++ {
			stream := make([]byte, length)
			for i := range stream {
				stream[i] = byte(i + 1)
			}
			for chunk := 1; chunk <= 4; chunk++ {
				for failAt := -1; failAt <= 3; failAt++ {
					for short := 0; short <= 2; short++ {
						if failAt < 0 && short > 0 {
							continue
						}
						runs++
						down := &c47Down{failAt: failAt, short: short}
						w := NewCutoffWriter(down, cutoff)
						desc := fmt.Sprintf("cutoff=%d stream=%v written in chunks of %d, downstream never fails", cutoff, stream, chunk)
						if failAt >= 0 {
							desc = fmt.Sprintf("cutoff=%d stream=%v written in chunks of %d, downstream fails at its call #%d accepting %d bytes", cutoff, stream, chunk, failAt+1, short)
						}
						rest := stream
						bad := ""
						for steps := 0; len(rest) > 0 && bad == "" && steps < 100; steps++ {
							buf := rest
							if len(buf) > chunk {
								buf = buf[:chunk]
							}
							before := down.failed
							n, err := w.Write(append([]byte(nil), buf...))
							switch {
							case n < 0 || n > len(buf):
								bad = fmt.Sprintf("Write(%v) returned count %d", buf, n)
							case err == nil && n != len(buf):
								bad = fmt.Sprintf("Write(%v) returned (%d, nil): bytes not reported as written without an error", buf, n)
							case err != nil && (before || !down.failed):
								bad = fmt.Sprintf("Write(%v) failed (%v) although the downstream writer did not fail in this call", buf, err)
							}
							rest = rest[n:]
						}
						if bad == "" {
							want := stream
							if uint(len(want)) > cutoff {
								want = want[:cutoff]
							}
							if len(rest) == 0 && !bytes.Equal(down.got, want) {
								bad = fmt.Sprintf("downstream received %v, the first %d bytes of the stream are %v", down.got, cutoff, want)
							}
						}
						if bad != "" {
							fmt.Printf("REPLAY-CONFIRMED: %s: %s\n", desc, bad)
							return
						}
					}
				}
			}
		}
	}
	fmt.Printf("REPLAY-NOT-REPRODUCED after %d runs\n", runs)
}
