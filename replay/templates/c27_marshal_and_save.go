// pkgdir: pkg/encoding
package encoding

// Replay for C27 at the saving helper through which session, archive and cache
// files are written (MarshalAndSave). Scratch directory, removed afterwards.
// Family: previous content {absent, 5 bytes, 70000 bytes} x new content
// {empty, 1, 4097, 100000 bytes}; a failing marshal callback; targets that
// cannot be written (path occupied by a non-empty directory, missing
// directory). Oracle: nil is returned exactly when the target now holds the
// complete new content (with owner-only permissions 0600, nothing else left in
// the directory); on a failure an error is returned, the previous state at the
// target is untouched and only Mutagen temporary files may be left behind.

import (
	"bytes"
	"errors"
	"fmt"
	"os"
	"path/filepath"
	"strings"
	"testing"

	"github.com/mutagen-io/mutagen/pkg/filesystem"
)

const replayModelC27Save = `{{MODEL_JSON}}`

func c27SaveContent(n int, seed byte) []byte {
	b := make([]byte, n)
	for i := range b {
		b[i] = seed + byte(i%251)
	}
	return b
}

func c27SaveStrays(dir string, allowed ...string) (all, nonTemporary []string) {
	entries, _ := os.ReadDir(dir)
outer:
	for _, e := range entries {
		for _, a := range allowed {
			if e.Name() == a {
				continue outer
			}
		}
		all = append(all, e.Name())
		if !strings.HasPrefix(e.Name(), filesystem.TemporaryNamePrefix) {
			nonTemporary = append(nonTemporary, e.Name())
		}
	}
	return
}

func c27SaveRun(base string) string {
	dir := filepath.Join(base, "dir")
	if err := os.MkdirAll(dir, 0700); err != nil {
		return ""
	}
	target := filepath.Join(dir, "archive")
	for _, oldLen := range []int{-1, 5, 70000} {
		for _, newLen := range []int{0, 1, 4097, 100000} {
			os.Remove(target)
			desc := fmt.Sprintf("no previous file, %d new bytes", newLen)
			if oldLen >= 0 {
				os.WriteFile(target, c27SaveContent(oldLen, 1), 0644)
				desc = fmt.Sprintf("%d previous bytes, %d new bytes", oldLen, newLen)
			}
			want := c27SaveContent(newLen, 7)
			if err := MarshalAndSave(target, func() ([]byte, error) { return want, nil }); err != nil {
				return fmt.Sprintf("%s: MarshalAndSave failed on a healthy directory: %v", desc, err)
			}
			got, err := os.ReadFile(target)
			if err != nil || !bytes.Equal(got, want) {
				return fmt.Sprintf("%s: MarshalAndSave returned nil but the target holds %d bytes (read error %v) that are not the %d new bytes", desc, len(got), err, len(want))
			}
			if info, err := os.Stat(target); err != nil || info.Mode().Perm() != 0600 {
				return fmt.Sprintf("%s: the saved file has permissions %o; session, archive and cache files are saved with owner-only permissions 0600", desc, info.Mode().Perm())
			}
			if all, _ := c27SaveStrays(dir, "archive"); len(all) > 0 {
				return fmt.Sprintf("%s: after a successful save these files are left behind: %q", desc, all)
			}
		}
	}
	// failing marshal: nothing may change
	{
		old := c27SaveContent(100, 2)
		os.WriteFile(target, old, 0600)
		err := MarshalAndSave(target, func() ([]byte, error) { return []byte("partial"), errors.New("injected marshal failure") })
		got, _ := os.ReadFile(target)
		all, _ := c27SaveStrays(dir, "archive")
		if err == nil || !bytes.Equal(got, old) || len(all) > 0 {
			return fmt.Sprintf("failing marshal callback: MarshalAndSave returned %v, the target holds %d bytes (previous content %d bytes), other files: %q", err, len(got), len(old), all)
		}
	}
	// targets that cannot be written
	blocked := filepath.Join(dir, "blocked")
	os.MkdirAll(filepath.Join(blocked, "child"), 0700)
	for _, c := range []struct{ desc, path string }{
		{"the target path is occupied by a non-empty directory", blocked},
		{"the target's directory does not exist", filepath.Join(dir, "missing", "file")},
	} {
		want := c27SaveContent(300, 5)
		err := MarshalAndSave(c.path, func() ([]byte, error) { return want, nil })
		got, readErr := os.ReadFile(c.path)
		saved := readErr == nil && bytes.Equal(got, want)
		if err == nil && !saved {
			return fmt.Sprintf("%s: MarshalAndSave returned nil although the path does not hold the new content: the failed save is reported as a success", c.desc)
		}
		if _, statErr := os.Stat(filepath.Join(blocked, "child")); statErr != nil {
			return fmt.Sprintf("%s: the save destroyed the directory at the target path", c.desc)
		}
		if _, nonTemporary := c27SaveStrays(dir, "archive", "blocked"); len(nonTemporary) > 0 {
			return fmt.Sprintf("%s: the failed save left files that are not Mutagen temporary files: %q", c.desc, nonTemporary)
		}
	}
	return ""
}

func TestReplayMarshalAndSave(t *testing.T) {
	root := os.Getenv("MUTAGEN_DATA_DIRECTORY")
	base, err := os.MkdirTemp(root, "c27replay")
	if err != nil {
		fmt.Printf("REPLAY-NOT-REPRODUCED (no scratch directory: %v)\n", err)
		return
	}
	defer os.RemoveAll(base)
	if bad := c27SaveRun(base); bad != "" {
		fmt.Printf("REPLAY-CONFIRMED: %s\n", bad)
		return
	}
	fmt.Printf("REPLAY-NOT-REPRODUCED (successful saves, failing marshal, unwritable targets)\n")
}
