// pkgdir: pkg/multiplexing
package multiplexing

// Replay for C24 (window increments handed to the enqueue goroutine are never
// zero). The failed obligation is the channel invariant at the send in
// Stream.Read; the solver's model has a read that consumed nothing. On the
// real code that is a Read with a zero-length buffer while data is buffered:
// the reader enqueues a zero-valued window increment, which the peer's reader
// treats as a protocol violation and tears the connection down.

import (
	"context"
	"fmt"
	"net"
	"testing"
	"time"
)

const replayModel = `{{MODEL_JSON}}`

func TestReplayZeroLengthRead(t *testing.T) {
	p1, p2 := net.Pipe()
	a := Multiplex(NewCarrierFromStream(p1), false, nil)
	b := Multiplex(NewCarrierFromStream(p2), true, nil)
	defer a.Close()
	defer b.Close()
	type res struct {
		s   *Stream
		err error
	}
	opened := make(chan res, 1)
	go func() {
		s, err := a.OpenStream(context.Background())
		opened <- res{s, err}
	}()
	bs, err := b.AcceptStream(context.Background())
	if err != nil {
		t.Fatal("accept failed:", err)
	}
	ar := <-opened
	if ar.err != nil {
		t.Fatal("open failed:", ar.err)
	}
	as := ar.s
	// the peer sends a few bytes; wait until they are buffered on a's side
	if _, err := bs.Write([]byte("hello")); err != nil {
		t.Fatal("write failed:", err)
	}
	time.Sleep(200 * time.Millisecond)
	// a read that consumes nothing
	n, err := as.Read(nil)
	if n != 0 || err != nil {
		t.Fatalf("zero-length read returned %d, %v", n, err)
	}
	// give the enqueue/write/read goroutines time to move the message
	select {
	case <-b.Closed():
	case <-time.After(2 * time.Second):
	}
	if ierr := b.InternalError(); ierr != nil {
		fmt.Printf("REPLAY-CONFIRMED: Stream.Read with a zero-length buffer (5 bytes buffered) returned (0, nil) and enqueued a zero-valued window increment; the peer multiplexer closed with internal error %q\n", ierr)
		return
	}
	// the connection is still healthy: the remaining data can be read
	buf := make([]byte, 5)
	if _, err := as.Read(buf); err != nil {
		t.Fatal("read after zero-length read failed:", err)
	}
	fmt.Println("REPLAY-NOT-REPRODUCED")
}
