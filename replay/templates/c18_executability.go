// pkgdir: pkg/synchronization/core
package core

// Replay for C18 (executability propagation to the side that cannot store
// it). The contract of the recursion is one level deep, so a solver model
// does not name whole trees; the replay SEARCHES small (ancestor, preserving,
// non-preserving) triples, calls the real core.PropagateExecutability and
// checks an oracle written from the property statement:
//
//   - the preserving side's tree and the last-synchronized tree are not
//     changed by the call (the preserving side's bits are never changed), and
//     the scanned tree of the non-preserving side is not rewritten either: the
//     result is a separate tree;
//   - the result has exactly the shape of the non-preserving tree (names,
//     kinds, digests, link targets); only Executable flags of files may differ;
//   - for a file t of the non-preserving side with the same-path entries s
//     (preserving side) and o (last synchronized):
//       * if s or o is a file with t's content, the resulting flag is the flag
//         of such a matching file (s's if only s matches, o's if only o
//         matches, either one's if both match);
//       * otherwise, if s is a file unchanged since the last synchronization
//         (o is a file with s's content) - t's content was edited on the
//         non-preserving side and will replace s - the flag is s's flag, so
//         that the preserving side keeps its bit;
//       * otherwise nothing matches and the flag stays as scanned.
//
// Input family: names {a, b}; leaves absent, two file digests each with and
// without the executable flag, a third digest, a symbolic link, an empty
// directory; trees: a leaf, a directory {a: leaf}, {a: leaf, b: executable
// file}, {b: executable file}, a directory {a: {a: leaf}} (30 trees, 27000
// triples).

import (
	"bytes"
	"fmt"
	"sort"
	"strings"
	"testing"
	"time"
)

const rexModel = `{{MODEL_JSON}}`

func rexLeaves() []*Entry {
	return []*Entry{
		nil,
		{Kind: EntryKind_File, Digest: []byte{1}},
		{Kind: EntryKind_File, Digest: []byte{1}, Executable: true},
		{Kind: EntryKind_File, Digest: []byte{2}},
		{Kind: EntryKind_File, Digest: []byte{2}, Executable: true},
		{Kind: EntryKind_File, Digest: []byte{3}},
		{Kind: EntryKind_SymbolicLink, Target: "t"},
		{Kind: EntryKind_Directory},
	}
}

func rexClone(e *Entry) *Entry {
	if e == nil {
		return nil
	}
	c := &Entry{Kind: e.Kind, Executable: e.Executable, Digest: e.Digest, Target: e.Target, Problem: e.Problem}
	if e.Contents != nil {
		c.Contents = make(map[string]*Entry, len(e.Contents))
		for name, child := range e.Contents {
			c.Contents[name] = rexClone(child)
		}
	}
	return c
}

func rexTrees() []*Entry {
	var out []*Entry
	for _, l := range rexLeaves() {
		out = append(out, l)
	}
	for _, a := range rexLeaves() {
		for _, b := range []*Entry{nil, {Kind: EntryKind_File, Digest: []byte{1}, Executable: true}} {
			if a == nil && b == nil {
				continue
			}
			d := &Entry{Kind: EntryKind_Directory, Contents: map[string]*Entry{}}
			if a != nil {
				d.Contents["a"] = a
			}
			if b != nil {
				d.Contents["b"] = b
			}
			out = append(out, d)
		}
	}
	for _, l := range rexLeaves() {
		if l == nil {
			continue
		}
		out = append(out, &Entry{Kind: EntryKind_Directory, Contents: map[string]*Entry{"a": {Kind: EntryKind_Directory, Contents: map[string]*Entry{"a": l}}}})
	}
	return out
}

func rexSame(a, b *Entry) bool {
	if a == nil || b == nil {
		return a == nil && b == nil
	}
	if a.Kind != b.Kind || a.Executable != b.Executable || !bytes.Equal(a.Digest, b.Digest) || a.Target != b.Target || a.Problem != b.Problem || len(a.Contents) != len(b.Contents) {
		return false
	}
	for name, child := range a.Contents {
		other, ok := b.Contents[name]
		if !ok || !rexSame(child, other) {
			return false
		}
	}
	return true
}

func rexShow(e *Entry) string {
	if e == nil {
		return "absent"
	}
	flag := ""
	if e.Executable {
		flag = "+x"
	}
	switch e.Kind {
	case EntryKind_File:
		return fmt.Sprintf("file#%d%s", e.Digest[0], flag)
	case EntryKind_SymbolicLink:
		return "link" + flag
	case EntryKind_Directory:
		names := make([]string, 0, len(e.Contents))
		for n := range e.Contents {
			names = append(names, n)
		}
		sort.Strings(names)
		parts := make([]string, 0, len(names))
		for _, n := range names {
			parts = append(parts, n+":"+rexShow(e.Contents[n]))
		}
		return "dir" + flag + "{" + strings.Join(parts, " ") + "}"
	}
	return fmt.Sprintf("kind%d%s", e.Kind, flag)
}

func rexFileWith(e *Entry, digest []byte) bool {
	return e != nil && e.Kind == EntryKind_File && bytes.Equal(e.Digest, digest)
}

// rexOracle compares the result with the non-preserving tree node by node.
func rexOracle(ancestor, source, target, result *Entry, path string) string {
	if target == nil || result == nil {
		if target != nil || result != nil {
			return fmt.Sprintf("at %q the non-preserving side has %s and the result has %s", path, rexShow(target), rexShow(result))
		}
		return ""
	}
	if result.Kind != target.Kind || !bytes.Equal(result.Digest, target.Digest) || result.Target != target.Target || result.Problem != target.Problem || len(result.Contents) != len(target.Contents) {
		return fmt.Sprintf("at %q the non-preserving side has %s and the result has %s", path, rexShow(target), rexShow(result))
	}
	if target.Kind != EntryKind_File {
		if result.Executable != target.Executable {
			return fmt.Sprintf("at %q the executable flag of a non-file (%s) was changed", path, rexShow(target))
		}
		for name, child := range target.Contents {
			other, ok := result.Contents[name]
			if !ok {
				return fmt.Sprintf("at %q the result lacks the entry %q", path, name)
			}
			var o, s *Entry
			if ancestor != nil {
				o = ancestor.Contents[name]
			}
			if source != nil {
				s = source.Contents[name]
			}
			if bad := rexOracle(o, s, child, other, strings.TrimPrefix(path+"/"+name, "/")); bad != "" {
				return bad
			}
		}
		return ""
	}
	sMatches, oMatches := rexFileWith(source, target.Digest), rexFileWith(ancestor, target.Digest)
	switch {
	case sMatches || oMatches:
		if !(sMatches && result.Executable == source.Executable) && !(oMatches && result.Executable == ancestor.Executable) {
			return fmt.Sprintf("at %q the file %s has the same content as preserving %s / last-synchronized %s but the resulting flag is %v", path, rexShow(target), rexShow(source), rexShow(ancestor), result.Executable)
		}
	case source != nil && source.Kind == EntryKind_File && rexFileWith(ancestor, source.Digest):
		if result.Executable != source.Executable {
			return fmt.Sprintf("at %q the file was edited on the non-preserving side (%s) while the preserving side's %s is unchanged since the last synchronization (%s); the resulting flag %v differs from the preserving side's, whose bit would be changed when the edit is propagated", path, rexShow(target), rexShow(source), rexShow(ancestor), result.Executable)
		}
	default:
		if result.Executable != target.Executable {
			return fmt.Sprintf("at %q the file %s matches neither preserving %s nor last-synchronized %s, yet its flag was changed to %v", path, rexShow(target), rexShow(source), rexShow(ancestor), result.Executable)
		}
	}
	return ""
}

func TestReplayExecutabilityPropagation(t *testing.T) {
	start := time.Now()
	trees := rexTrees()
	evaluated := 0
	var confirmed []string
	seen := map[string]bool{}
	report := func(kind, what string) {
		if !seen[kind] && len(confirmed) < 3 {
			seen[kind] = true
			confirmed = append(confirmed, what)
		}
	}
	for _, o := range trees {
		for _, s := range trees {
			for _, n := range trees {
				evaluated++
				ancestor, source, target := rexClone(o), rexClone(s), rexClone(n)
				result := PropagateExecutability(ancestor, source, target)
				where := fmt.Sprintf("last synchronized %s, preserving side %s, non-preserving side %s", rexShow(o), rexShow(s), rexShow(n))
				if !rexSame(source, s) {
					report("source", fmt.Sprintf("%s: the call changed the preserving side's tree to %s", where, rexShow(source)))
				}
				if !rexSame(ancestor, o) {
					report("ancestor", fmt.Sprintf("%s: the call changed the last-synchronized tree to %s", where, rexShow(ancestor)))
				}
				if bad := rexOracle(o, s, n, result, ""); bad != "" {
					report("rule", fmt.Sprintf("%s: %s (result %s)", where, bad, rexShow(result)))
				}
				if !rexSame(target, n) {
					report("copy", fmt.Sprintf("%s: the call rewrote the scanned tree of the non-preserving side in place to %s", where, rexShow(target)))
				}
			}
		}
		if time.Since(start) > 20*time.Second {
			break
		}
	}
	for _, c := range confirmed {
		fmt.Printf("REPLAY-CONFIRMED: %s\n", c)
	}
	if len(confirmed) == 0 {
		fmt.Printf("REPLAY-NOT-REPRODUCED (%d triples checked in %v)\n", evaluated, time.Since(start).Round(time.Millisecond))
	}
	_ = rexModel
}
