#!/usr/bin/env python3
"""Regenerates MANIFEST.json from props/*.prop, props/meta.json and props/not_applicable.json."""
import json, glob, os, subprocess
os.chdir(os.path.dirname(os.path.abspath(__file__)))
meta = json.load(open('props/meta.json'))
na = json.load(open('props/not_applicable.json'))
all_ids = [json.loads(l)['id'] for l in open('properties.jsonl')]
claimed = sorted(os.path.basename(p)[:-5] for p in glob.glob('props/C*.prop'))
checks = []
for pid in claimed:
    m = meta[pid]
    checks.append({
        "property_id": pid,
        "quick_cmd": "./check.sh %s quick" % pid,
        "thorough_cmd": "./check.sh %s thorough" % pid,
        "evidence_file": "/verif/evidence/%s.json" % pid,
        "replay_cmd_template": "./check.sh --replay {path}",
        "engine": "govc",
        "level_claimed": {"category": m.get("category", "proof"), "text": m["text"], "design_ref": m.get("design_ref", "DESIGN.md section 5, " + pid)},
        "level_note": m["note"],
        "technique": m.get("technique", "contract-based deductive verification: weakest-precondition VCs over go/ssa of the real functions, discharged by z3/cvc5"),
    })
not_app = []
for pid in all_ids:
    if pid in claimed:
        continue
    not_app.append({"property_id": pid, "reason": na.get(pid, "no contract-based check built for this property in this revision (see DESIGN.md section 5)")})
try:
    commits = subprocess.check_output(['git', '-C', '/repo', 'log', '--format=%H %s', '59056a1..HEAD'], text=True).strip().split('\n')
except Exception:
    commits = []
hooks = [c.split()[0] for c in commits if c and ' verif:' in c]
man = {
    "version": 1,
    "setup_cmd": "cd /verif && ./setup.sh",
    "hooks": {
        "guard": "verif",
        "enable": "go build -tags verif: the only hooks are comment-only contract files (//go:build verif, zz_contracts_verif.go) that govc reads when it loads /repo with -tags=verif",
        "baseline_off_cmd": "cd /repo && PATH=/opt/veriftools/go1.26.8/bin:$PATH GOFLAGS=-mod=mod GOPROXY=off GOTOOLCHAIN=local go test -vet=off -count=1 -timeout 25m ./...",
        "source_commits": hooks,
        "add_only": True,
    },
    "engines": [{"name": "govc", "path": "/verif/govc", "serves_properties": claimed,
                 "kind_free_text": "own verification-condition generator for Go: go/packages+go/ssa (naive form) of /repo's working tree with -tags=verif, contracts from //@ comments, passified guarded commands, one SMT-LIB query per obligation, portfolio z3 5.1.0 / z3 4.8.12 / cvc5 1.0"}],
    "checks": checks,
    "notes": "Exit codes of every check: 0 = all obligations discharged (KNOWN-FINDING lines for listed findings), 1 = VIOLATION line(s), 2 = infrastructure failure (load error, contract error, vacuity guard). Obligation names carry no line numbers; renaming a function under contract or removing a loop a contract names is reported as a failed :binding obligation on purpose. See DESIGN.md.",
    "not_applicable": not_app,
}
json.dump(man, open('MANIFEST.json', 'w'), indent=1)
print("claimed", len(claimed), "not_applicable", len(not_app))
