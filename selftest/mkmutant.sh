#!/bin/bash
# usage: mkmutant.sh <prop> <name> <file relative to /repo> <old> <new>
# Creates selftest/mutants/<prop>-<name>.patch by replacing the first occurrence
# of <old> by <new> in the file, checks that the tree still builds, runs the
# property's quick check on the mutated tree and reverts.
cd "$(dirname "$0")/.."
prop=$1; name=$2; file=$3; old=$4; new=$5
export GOFLAGS=-mod=mod GOPROXY=off GOTOOLCHAIN=local GOSUMDB=off PATH=/opt/veriftools/go1.26.8/bin:$PATH
python3 - "$file" "$old" "$new" <<'PY' || exit 3
import sys
p='/repo/'+sys.argv[1]; s=open(p).read()
if sys.argv[2] not in s: sys.exit("pattern not found")
open(p,'w').write(s.replace(sys.argv[2],sys.argv[3],1))
PY
git -C /repo diff -- "$file" > selftest/mutants/$prop-$name.patch
(cd /repo && go build ./$(dirname $file)/ ) || { echo "DOES NOT BUILD"; git -C /repo checkout -- "$file"; rm selftest/mutants/$prop-$name.patch; exit 3; }
out=$(GOVC_EVIDENCE_DIR=/verif/out/selftest-evidence ./check.sh "$prop" quick 2>&1); rc=$?
git -C /repo checkout -- "$file"
echo "$out" | grep -E "^VIOLATION" | sed 's/replay=[^ ]* //' | head -4
echo "exit=$rc"
