#!/usr/bin/env python3
"""Regenerates the seeded-change table of DESIGN.md (between the SEEDED-TABLE markers)
from seeded/*/meta.json and seeded/RESULTS.tsv."""
import json, os, re, glob
os.chdir(os.path.join(os.path.dirname(os.path.abspath(__file__)), '..'))
res = {}
if os.path.exists('seeded/RESULTS.tsv'):
    for l in open('seeded/RESULTS.tsv'):
        f = l.rstrip('\n').split('\t')
        if len(f) >= 3:
            res[f[0]] = (f[2], f[3] if len(f) > 3 else '')
rows = []
tot = caught = 0
for d in sorted(glob.glob('seeded/*/')):
    name = os.path.basename(d.rstrip('/'))
    m = json.load(open(d + 'meta.json'))
    v, obl = res.get(name, ('not run', ''))
    note = m.get('detection_note', '')
    first = obl.split(';')[0].replace(' no-failing-input-found', '')
    first = re.sub(r'^pkg/[\w/]+\.', '', first)
    tot += 1
    caught += v == 'CAUGHT'
    needs = m.get('needs_to_manifest', '').replace('|', '/').replace('\n', ' ')
    needs = re.sub(r'\*\*|`', '', needs)
    rows.append('| %s | %s | %s | %s | %s |' % (name, m['property'], needs[:160], v + ((' — ' + note) if note else ''), first[:110]))
nb = sum(1 for n in res if 'CAUGHT by' in res[n][0])
missed = sum(1 for n in res if res[n][0] == 'MISSED')
notrun = tot - len([n for n in res if os.path.isdir('seeded/' + n)])
table = ['%d seeded changes kept: %d caught by the quick check of the property they were written against, %d missed by that check but caught by the check of a neighbouring property, %d missed by every check (discussed in 9.1), %d not run on the final tree.' % (tot, caught, nb, missed, notrun), '',
         '| seeded change | property | needs, to manifest | verdict of `./check.sh <property> quick` | first failing obligation |', '|---|---|---|---|---|'] + rows
s = open('DESIGN.md').read()
a, b = '<!-- SEEDED-TABLE-BEGIN -->', '<!-- SEEDED-TABLE-END -->'
if a in s:
    s = s[:s.index(a) + len(a)] + '\n' + '\n'.join(table) + '\n' + s[s.index(b):]
    open('DESIGN.md', 'w').write(s)
print('\n'.join(table[:2]))
