#!/bin/bash
# Runs every kept seeded change (seeded/<name>/patch.diff) against the quick
# check of the property it breaks, on a scratch clone of /repo (removed
# afterwards), and writes seeded/RESULTS.tsv: name, property, verdict, first
# failing obligation. usage: seedmatrix.sh [pattern]
cd "$(dirname "$0")/.."
pat="${1:-}"
export GOFLAGS=-mod=mod GOPROXY=off GOTOOLCHAIN=local GOSUMDB=off PATH=/opt/veriftools/go1.26.8/bin:$PATH
R=$(mktemp -d /var/tmp/seedmatrix.XXXX)
trap 'rm -rf "$R"' EXIT
git clone -q /repo "$R/repo"
export GOVC_REPO="$R/repo" GOVC_EVIDENCE_DIR="$R/ev"
out=seeded/RESULTS.tsv
tmp=$(mktemp)
[ -n "$pat" ] && [ -f $out ] && grep -v -- "$pat" $out > $tmp
for d in seeded/*${pat}*/; do
  name=$(basename $d); prop=$(python3 -c "import json;print(json.load(open('$d/meta.json'))['property'])")
  if ! git -C "$R/repo" apply --check "$PWD/$d/patch.diff" 2>/dev/null; then printf "%s\t%s\tDOES-NOT-APPLY\t\n" $name $prop >> $tmp; continue; fi
  git -C "$R/repo" apply "$PWD/$d/patch.diff"
  res=$(./check.sh $prop quick 2>&1); rc=$?
  git -C "$R/repo" checkout -q -- . ; git -C "$R/repo" clean -fdq
  if [ $rc -eq 1 ]; then v=CAUGHT; elif [ $rc -eq 0 ]; then v=MISSED; else v="INFRA($rc)"; fi
  printf "%s\t%s\t%s\t%s\n" $name $prop $v "$(echo "$res" | grep '^VIOLATION' | head -3 | sed 's/.*obligation=//' | tr '\n' ';')" >> $tmp
  tail -1 $tmp
done
sort $tmp > $out; rm -f $tmp
