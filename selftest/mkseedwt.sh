#!/bin/bash
# Creates a scratch copy of /repo's HEAD tree for an independent seeding
# sub-agent: its own git repository (one commit, no history), with the
# comment-only contract files removed - they and the commit history are
# /verif knowledge and must not leak. usage: mkseedwt.sh <dir>
set -e
d=$1
rm -rf "$d"; mkdir -p "$d"
git -C /repo archive HEAD | tar -x -C "$d"
cd "$d"
find . -name '*_verif.go' -delete
git init -q .
git add -A
git -c user.name=seed -c user.email=seed@example.invalid commit -qm "base"
echo "$d ready"
