#!/usr/bin/env python3
"""Regenerates the property status table of DESIGN.md section 0.3 from props/meta.json,
props/not_applicable.json, evidence/*.json, selftest/mutants and seeded/."""
import json, os, glob, re
os.chdir(os.path.join(os.path.dirname(os.path.abspath(__file__)), '..'))
meta = json.load(open('props/meta.json'))
na = json.load(open('props/not_applicable.json'))
ids = [json.loads(l)['id'] for l in open('properties.jsonl')]
titles = {json.loads(l)['id']: json.loads(l)['title'] for l in open('properties.jsonl')}
rows = []
for pid in ids:
    if os.path.exists('props/%s.prop' % pid):
        ev = {}
        if os.path.exists('evidence/%s.json' % pid):
            ev = json.load(open('evidence/%s.json' % pid))
        cov = ev.get('coverage', {})
        nmut = len(glob.glob('selftest/mutants/%s-*.patch' % pid))
        nseed = len(glob.glob('seeded/%s-*/' % pid))
        nrep = len([l for l in open('props/%s.prop' % pid) if l.startswith('replay ')])
        br = cov.get('bounded_runs') or []
        kind = 'proof'
        if meta.get(pid, {}).get('category') == 'exploration':
            kind = 'bounded stand-in only'
        elif br:
            kind = 'proof + bounded stand-in'
        bounded = '; '.join('%s: %d cases' % (b['label'], b['evaluations']) for b in br)
        rows.append('| %s | %s | %s | %d | %d | %s | %d | %d | %d |' % (pid, titles[pid][:60], kind, len(cov.get('functions_under_contract') or []),
                    cov.get('obligations', 0), bounded or '-', nmut, nseed, nrep))
    else:
        rows.append('| %s | %s | not applicable: %s | | | | | | |' % (pid, titles[pid][:60], na.get(pid, 'see section 6')[:150]))
table = ['| id | title | decided by | functions under contract | obligations (all discharged) | bounded stand-ins (quick tier) | must-fail mutants | seeded changes | replay templates |',
         '|---|---|---|---|---|---|---|---|---|'] + rows
s = open('DESIGN.md').read()
a, b = '<!-- STATUS-TABLE-BEGIN -->', '<!-- STATUS-TABLE-END -->'
if a not in s:
    s = s.replace('STATUS-TABLE-PLACEHOLDER', a + '\n' + b)
s = s[:s.index(a) + len(a)] + '\n' + '\n'.join(table) + '\n' + s[s.index(b):]
open('DESIGN.md', 'w').write(s)
print(len(rows), 'rows')
