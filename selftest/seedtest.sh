#!/bin/bash
# Applies one patch to /repo, runs the quick check of a property, reverts.
# usage: seedtest.sh <property> <patch.diff>
cd "$(dirname "$0")/.."
id=$1; p=$(readlink -f "$2")
git -C /repo apply --check "$p" || { echo "patch does not apply"; exit 3; }
git -C /repo apply "$p"
out=$(GOVC_EVIDENCE_DIR=/verif/out/selftest-evidence ./check.sh "$id" quick 2>&1); rc=$?
git -C /repo apply -R "$p"
echo "$out" | grep -E "^VIOLATION|^KNOWN|^property|govc:" | sed 's/replay=[^ ]* //' | head -12
echo "exit=$rc"
