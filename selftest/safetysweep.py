#!/usr/bin/env python3
"""Finds, per property and function, the safety classes (bounds, nil, div0, overflow, conv,
typeassert, unreachable-panic) that a label list does not claim although every such
obligation of the function discharges on the unchanged tree, and adds them to the prop
file. A label list without them lets a change that introduces an index panic or a
wrapping conversion go unnoticed (seeded change C22-r2-s2). usage: safetysweep.py [ID ...]"""
import os, re, subprocess, sys, glob
os.chdir(os.path.join(os.path.dirname(os.path.abspath(__file__)), '..'))
KINDS = ['bounds', 'nil', 'div0', 'overflow', 'conv', 'typeassert', 'unreachable-panic']
env = dict(os.environ, GOVC_EXTRA_KINDS=','.join(KINDS), GOVC_EVIDENCE_DIR='/var/tmp/safetysweep-ev',
           GOVC_REPLAY_DIR='/var/tmp/safetysweep-rp', GOVC_NO_REPLAY='1')
ids = sys.argv[1:] or sorted(os.path.basename(p)[:-5] for p in glob.glob('props/C*.prop'))
for pid in ids:
    lines = open('props/%s.prop' % pid).read().split('\n')
    funcs = [l.split() for l in lines if l.startswith('func ')]
    if not any(len(f) > 2 for f in funcs):
        continue
    r = subprocess.run([os.environ.get('GOVC_BIN', './bin/govc'), 'check', '--property', pid, '-v'], env=env, capture_output=True, text=True)
    status = {}  # (func, kind) -> [n, failed]
    for l in r.stderr.split('\n'):
        m = re.match(r'^(discharged|failed-\S+)\s+\d+ms\s+\d+\s+(?:\S+\s+)?(pkg/\S+)$', l)
        if not m:
            continue
        name = m.group(2)
        for k in KINDS:
            i = name.find(':' + k + ':')
            if i < 0 and name.endswith(':' + k):
                i = len(name) - len(k) - 1
            if i >= 0:
                fn = name[:i]
                st = status.setdefault((fn, k), [0, 0])
                st[0] += 1
                if m.group(1) != 'discharged':
                    st[1] += 1
    changed = False
    out = []
    for l in lines:
        f = l.split()
        if l.startswith('func ') and len(f) > 2:
            labels = f[2].split(',')
            add = [k for k in KINDS if k not in labels and status.get((f[1], k), [0, 0])[0] > 0 and status[(f[1], k)][1] == 0]
            if add:
                l = 'func %s %s' % (f[1], ','.join(labels + add))
                changed = True
                print(pid, f[1], '+', ','.join(add), flush=True)
            skipped = [k for k in KINDS if k not in labels and status.get((f[1], k), [0, 0])[1] > 0]
            if skipped:
                print(pid, f[1], 'NOT claimed (some obligations do not discharge):', ','.join('%s %d/%d' % (k, status[(f[1], k)][1], status[(f[1], k)][0]) for k in skipped), flush=True)
        out.append(l)
    if changed:
        open('props/%s.prop' % pid, 'w').write('\n'.join(out))
