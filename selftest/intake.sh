#!/bin/bash
# Confirms the deliverables of a seeding sub-agent (/tmp/seedout/<ID>/s*) with
# keepseed.sh and stores the confirmed ones as seeded/<ID>-r2-s<k>.
# usage: intake.sh <ID>
cd "$(dirname "$0")/.."
id=$1
for s in /tmp/seedout/$id/s*; do
  [ -f $s/patch.diff ] || continue
  k=$(basename $s)
  pkg=$(head -1 $s/pkg.txt | tr -d ' \r\n')
  needs=$(grep -i -m1 -A2 'need' $s/notes.md | tr '\n' ' ' | cut -c1-400)
  [ -z "$needs" ] && needs="see notes.md"
  selftest/keepseed.sh $id $s $pkg $id-r2-$k "$needs" 2>&1 | tail -3
done
