#!/bin/bash
# Runs the quick check of every claimed property on /repo (or $GOVC_REPO) and
# prints one summary line each. Evidence goes to $GOVC_EVIDENCE_DIR if set.
cd "$(dirname "$0")/.."
for c in $(ls props/C*.prop | xargs -n1 basename | sed 's/.prop//'); do
  s=$(date +%s); out=$(./check.sh $c ${1:-quick} 2>&1); rc=$?; e=$(date +%s)
  printf "%s rc=%d %ds %s\n" $c $rc $((e-s)) "$(echo "$out" | grep -E '^property' | tail -1 | cut -c1-160)"
  [ $rc -ne 0 ] && echo "$out" | grep -E "^VIOLATION|govc:" | head -5
done
