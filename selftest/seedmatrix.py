#!/usr/bin/env python3
"""Runs every kept seeded change (seeded/<name>/patch.diff) against the quick check of
the property it breaks, on a scratch clone of /repo (removed afterwards). When that
check misses it, the quick checks of the other properties whose packages contain a
file the patch touches are tried too (a change is often caught by the check of a
neighbouring property). Results: seeded/RESULTS.tsv (name, property, verdict, first
failing obligations). usage: seedmatrix.py [substring] [--redo]"""
import os, sys, json, glob, re, subprocess, tempfile, shutil
os.chdir(os.path.join(os.path.dirname(os.path.abspath(__file__)), '..'))
args = [a for a in sys.argv[1:] if not a.startswith('--')]
pat = args[0] if args else ''
redo = '--redo' in sys.argv
env = dict(os.environ, GOFLAGS='-mod=mod', GOPROXY='off', GOTOOLCHAIN='local', GOSUMDB='off',
           PATH='/opt/veriftools/go1.26.8/bin:' + os.environ['PATH'])
proppk = {}
for p in glob.glob('props/C*.prop'):
    pid = os.path.basename(p)[:-5]
    dirs = set()
    for l in open(p):
        if l.startswith('packages'):
            dirs |= {re.sub(r'^\./', '', d).rstrip('/.') for d in l.split()[1:]}
        m = re.match(r'boundedrun (\S+)', l)
        if m:
            for tl in open('bounded/' + m.group(1)):
                if tl.startswith('// pkgdir:'):
                    dirs.add(tl.split(':', 1)[1].strip())
    proppk[pid] = dirs
results = {}
if os.path.exists('seeded/RESULTS.tsv'):
    for l in open('seeded/RESULTS.tsv'):
        f = l.rstrip('\n').split('\t')
        if len(f) >= 3:
            results[f[0]] = (f + [''])[:4]
R = tempfile.mkdtemp(prefix='seedmatrix.', dir='/var/tmp')
try:
    subprocess.check_call(['git', 'clone', '-q', '/repo', R + '/repo'])
    env.update(GOVC_REPO=R + '/repo', GOVC_EVIDENCE_DIR=R + '/ev', GOVC_REPLAY_DIR=R + '/replays')

    def check(prop):
        r = subprocess.run(['./check.sh', prop, 'quick'], env=env, capture_output=True, text=True)
        viol = [re.sub(r'.*obligation=', '', l) for l in r.stdout.split('\n') if l.startswith('VIOLATION')]
        return r.returncode, viol

    for d in sorted(glob.glob('seeded/*/')):
        name = os.path.basename(d.rstrip('/'))
        if pat not in name:
            continue
        if name in results and not redo:
            continue
        meta = json.load(open(d + 'meta.json'))
        prop = meta['property']
        patch = os.path.abspath(d + 'patch.diff')
        if subprocess.run(['git', '-C', R + '/repo', 'apply', '--check', patch], capture_output=True).returncode != 0:
            results[name] = [name, prop, 'DOES-NOT-APPLY', '']
            continue
        touched = {os.path.dirname(m) for m in re.findall(r'^\+\+\+ b/(\S+)', open(patch).read(), re.M)}
        subprocess.check_call(['git', '-C', R + '/repo', 'apply', patch])
        verdict, obl = 'MISSED', ''
        if prop in proppk:
            rc, viol = check(prop)
            if rc == 1:
                verdict, obl = 'CAUGHT', ';'.join(viol[:3])
            elif rc != 0:
                verdict = 'INFRA(%d)' % rc
        else:
            verdict = 'NO-CHECK'
        if verdict in ('MISSED', 'NO-CHECK'):
            for other in sorted(proppk):
                if other == prop or not (proppk[other] & touched):
                    continue
                rc, viol = check(other)
                if rc == 1:
                    verdict = ('MISSED by %s, CAUGHT by %s' % (prop, other)) if verdict == 'MISSED' else ('no check for %s, CAUGHT by %s' % (prop, other))
                    obl = ';'.join(viol[:3])
                    break
        subprocess.check_call(['git', '-C', R + '/repo', 'checkout', '-q', '--', '.'])
        subprocess.check_call(['git', '-C', R + '/repo', 'clean', '-fdq'])
        results[name] = [name, prop, verdict, obl]
        print('\t'.join(results[name])[:220], flush=True)
        # several shards may run side by side: merge this row into the file under a lock
        import fcntl
        with open('seeded/.results.lock', 'w') as lk:
            fcntl.flock(lk, fcntl.LOCK_EX)
            cur = {}
            if os.path.exists('seeded/RESULTS.tsv'):
                for l in open('seeded/RESULTS.tsv'):
                    f = l.rstrip('\n').split('\t')
                    if len(f) >= 3:
                        cur[f[0]] = (f + [''])[:4]
            cur[name] = results[name]
            with open('seeded/RESULTS.tsv.tmp', 'w') as f:
                for k in sorted(cur):
                    f.write('\t'.join(cur[k]) + '\n')
            os.replace('seeded/RESULTS.tsv.tmp', 'seeded/RESULTS.tsv')
finally:
    shutil.rmtree(R, ignore_errors=True)
