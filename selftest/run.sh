#!/bin/bash
# Must-fail corpus: applies each mutant (a property-breaking edit that still
# compiles) to /repo's working tree, runs the property's quick check, expects
# exit 1 with a VIOLATION line, and reverts the tree. Usage: run.sh [pattern]
# Env REPO (optional): the repository copy to mutate (default /repo); with a
# scratch clone several shards can run side by side and /repo stays untouched.
cd "$(dirname "$0")/.."
pat="${1:-}"
REPO="${REPO:-/repo}"
export GOVC_REPO="$REPO"
fail=0
for p in selftest/mutants/*${pat}*.patch; do
  id=$(basename "$p" | cut -d- -f1)
  if ! git -C "$REPO" apply --check "$PWD/$p" 2>/dev/null; then echo "SKIP  $p (does not apply)"; continue; fi
  git -C "$REPO" apply "$PWD/$p"
  out=$(GOVC_EVIDENCE_DIR=/verif/out/selftest-evidence ./check.sh "$id" quick 2>&1); rc=$?
  git -C "$REPO" apply -R "$PWD/$p"
  if [ $rc -eq 1 ] && echo "$out" | grep -q "^VIOLATION property=$id"; then
    echo "CAUGHT $(basename $p): $(echo "$out" | grep -c '^VIOLATION') violation line(s): $(echo "$out" | grep '^VIOLATION' | head -2 | sed 's/.*obligation=//' | tr '\n' ';')"
  else
    echo "MISSED $(basename $p) (exit $rc)"; fail=1
    echo "$out" | tail -3
  fi
done
exit $fail
