#!/bin/bash
# Confirms an independently produced seeded change in a scratch worktree and
# stores it under /verif/seeded/<name>/.
# usage: keepseed.sh <property> <seed dir> <package dir relative to repo> <name> "<needs>"
set -u
prop=$1; src=$(readlink -f "$2"); pkg=$3; name=$4; needs=$5
export GOFLAGS=-mod=mod GOPROXY=off GOTOOLCHAIN=local GOSUMDB=off PATH=/opt/veriftools/go1.26.8/bin:$PATH
wt=/var/tmp/wt/confirm-$$
git -C /repo worktree add --detach $wt HEAD >/dev/null 2>&1 || exit 3
cleanup() { git -C /repo worktree remove --force $wt >/dev/null 2>&1; }
trap cleanup EXIT
cd $wt
demo=$(ls $src/*_test.go | head -1)
mkdir -p /var/tmp/wt
git apply $src/patch.diff || { echo "patch does not apply"; exit 3; }
go build ./... >/dev/null 2>&1; build=$?
go test -vet=off -count=1 ./$pkg/... 2>&1 | grep -E "^(--- FAIL|FAIL|ok)" | sed -E 's/[0-9]+\.[0-9]+s//g' | sort > /tmp/keepseed.with.$$
cp $demo $pkg/zz_demo_test.go
go test -vet=off -count=1 -run 'Demo|Seed' ./$pkg >/tmp/keepseed.$$ 2>&1; withchange=$?
git checkout -- . 
go test -vet=off -count=1 -run 'Demo|Seed' ./$pkg >/dev/null 2>&1; without=$?
rm -f $pkg/zz_demo_test.go
# existing tests: the set of failing tests must be the same as on the pristine tree
go test -vet=off -count=1 ./$pkg/... 2>&1 | grep -E "^(--- FAIL|FAIL|ok)" | sed -E 's/[0-9]+\.[0-9]+s//g' | sort > /tmp/keepseed.base.$$
if cmp -s /tmp/keepseed.with.$$ /tmp/keepseed.base.$$; then existing=0; else existing=1; fi
rm -f /tmp/keepseed.with.$$ /tmp/keepseed.base.$$
echo "build=$build existing_tests=$existing demo_with_change=$withchange demo_without=$without"
if [ $build -eq 0 ] && [ $existing -eq 0 ] && [ $withchange -ne 0 ] && [ $without -eq 0 ]; then
  d=/verif/seeded/$name; mkdir -p $d
  cp $src/patch.diff $d/patch.diff; cp $demo $d/demo_test.go; [ -f $src/notes.md ] && cp $src/notes.md $d/notes.md
  python3 - "$d" "$prop" "$pkg" "$needs" <<'PY'
import json,sys
d,prop,pkg,needs=sys.argv[1:5]
json.dump({"property":prop,"breaks":prop,"package":pkg,"needs_to_manifest":needs,
 "origin":"independent sub-agent given only the property text and a scratch copy of the repository (no contract files, no history)","base":"/repo HEAD at the time of confirmation",
 "confirmed":{"compiles":True,"existing_tests_pass_with_change":True,"demo_fails_with_change":True,"demo_passes_without_change":True,
  "commands":["git apply patch.diff","go build ./...","go test -vet=off -count=1 ./%s/..."%pkg,"go test -run 'Demo|Seed' ./%s (with demo_test.go copied in)"%pkg,"git checkout -- . ; same demo run"]}},
 open(d+"/meta.json","w"),indent=1)
PY
  echo "KEPT $name"
else
  echo "REJECTED $name"; tail -5 /tmp/keepseed.$$
fi
rm -f /tmp/keepseed.$$
